"""Lower the Cython parse tree of a `.pyx`/`.pxd` file to Python `ast`.

The Cython compiler's own parser (`Cython.Compiler.Parsing.p_module`) is
used; nothing is type-analysed, compiled or executed.  The result is an
ordinary `ast.Module`, so every engine is written once against `ast`.

Cython-only forms:

- `cdef`/`cpdef` functions        -> `FunctionDef` decorated `__cdef__`
- `cdef T x = e`                  -> `AnnAssign(x: 'T' = e)` (or without value)
- `<T> e`                         -> `Call(Name('__cast__'), [Constant('T'), e])`
- `NULL`                          -> `Name('NULL')`
- `&x`                            -> `Call(Name('__addr__'), [x])`
- `sizeof(T)`                     -> `Call(Name('sizeof'), [Constant('T')])`
- `cdef extern` blocks, ctypedefs, structs, enums, cimports -> kept as
  `Expr(Constant('<kind>'))` placeholders, except that C function
  prototypes inside `cdef extern` are recorded in `Lowered.c_protos`
  (name -> parameter names), which the operator-table engine uses for the
  operand roles of library calls.

Unknown node kinds are lowered to `Call(Name('__cy_<Kind>__'), children)`
and counted in `Lowered.unknown`, so that nothing is silently dropped.
"""
import ast
import collections


def parse_cython(path, modname):
    from Cython.Compiler import Parsing, Scanning, Symtab
    from Cython.Compiler.Main import (
        Context, CompilationOptions, default_options)
    options = CompilationOptions(default_options)
    options.language_level = 3
    ctx = Context.from_options(options)
    src = Scanning.FileSourceDescriptor(path, path)
    scope = Symtab.ModuleScope(modname, None, ctx)
    with open(path, encoding='utf8') as f:
        scanner = Scanning.PyrexScanner(
            f, src, source_encoding='utf8', scope=scope, context=ctx)
        level = 'module_pxd' if path.endswith('.pxd') else 'module'
        tree = Parsing.p_module(scanner, path.endswith('.pxd'), modname)
    return tree


class Lowered:
    def __init__(self):
        self.module = None
        self.unknown = collections.Counter()
        self.c_protos = dict()
        self.n_nodes = 0


_BINOPS = {
    '+': ast.Add, '-': ast.Sub, '*': ast.Mult, '/': ast.Div,
    '//': ast.FloorDiv, '%': ast.Mod, '**': ast.Pow,
    '<<': ast.LShift, '>>': ast.RShift, '|': ast.BitOr,
    '&': ast.BitAnd, '^': ast.BitXor, '@': ast.MatMult}
_CMPOPS = {
    '==': ast.Eq, '!=': ast.NotEq, '<': ast.Lt, '<=': ast.LtE,
    '>': ast.Gt, '>=': ast.GtE, 'is': ast.Is, 'is_not': ast.IsNot,
    'is not': ast.IsNot, 'in': ast.In, 'not_in': ast.NotIn,
    'not in': ast.NotIn}


class _Lowerer:
    def __init__(self):
        self.out = Lowered()

    # ---- helpers
    def pos(self, node, new):
        p = getattr(node, 'pos', None)
        if p:
            new.lineno = p[1]
            new.col_offset = p[2]
            new.end_lineno = p[1]
            new.end_col_offset = p[2]
        return new

    def typename(self, base_type, declarator=None):
        name = getattr(base_type, 'name', None)
        if name is None:
            name = type(base_type).__name__
        stars = ''
        d = declarator
        while d is not None and type(d).__name__ == 'CPtrDeclaratorNode':
            stars += '*'
            d = d.base
        return f'{name}{stars}'

    def declname(self, declarator):
        d = declarator
        while d is not None and not hasattr(d, 'name'):
            d = getattr(d, 'base', None)
        return getattr(d, 'name', None) if d is not None else None

    def funcdeclarator(self, declarator):
        d = declarator
        while d is not None and type(d).__name__ != 'CFuncDeclaratorNode':
            d = getattr(d, 'base', None)
        return d

    # ---- statements
    def stmts(self, node):
        if node is None:
            return []
        k = type(node).__name__
        if k == 'StatListNode':
            r = []
            for s in node.stats:
                r.extend(self.stmts(s))
            return r
        r = self.stmt(node)
        if r is None:
            return []
        if isinstance(r, list):
            return r
        return [r]

    def body(self, node):
        r = self.stmts(node)
        if not r:
            r = [ast.Pass()]
        return r

    def stmt(self, node):
        self.out.n_nodes += 1
        k = type(node).__name__
        m = getattr(self, 's_' + k, None)
        if m is None:
            self.out.unknown[k] += 1
            return self.pos(node, ast.Expr(value=ast.Constant(
                value=f'<cython:{k}>')))
        r = m(node)
        if isinstance(r, list):
            for x in r:
                self.pos(node, x)
        elif r is not None:
            self.pos(node, r)
        return r

    def s_PassStatNode(self, n):
        return ast.Pass()

    def s_BreakStatNode(self, n):
        return ast.Break()

    def s_ContinueStatNode(self, n):
        return ast.Continue()

    def s_ExprStatNode(self, n):
        return ast.Expr(value=self.expr(n.expr))

    def s_SingleAssignmentNode(self, n):
        return ast.Assign(
            targets=[self.target(n.lhs)], value=self.expr(n.rhs))

    def s_CascadedAssignmentNode(self, n):
        return ast.Assign(
            targets=[self.target(x) for x in n.lhs_list],
            value=self.expr(n.rhs))

    def s_ParallelAssignmentNode(self, n):
        return self.stmts_of_list(n.stats)

    def stmts_of_list(self, lst):
        r = []
        for s in lst:
            r.extend(self.stmts(s))
        return r

    def s_InPlaceAssignmentNode(self, n):
        op = _BINOPS.get(n.operator, ast.Add)()
        return ast.AugAssign(
            target=self.target(n.lhs), op=op, value=self.expr(n.rhs))

    def s_DelStatNode(self, n):
        return ast.Delete(targets=[self.target(a, ast.Del) for a in n.args])

    def s_ReturnStatNode(self, n):
        v = self.expr(n.value) if n.value is not None else None
        return ast.Return(value=v)

    def s_RaiseStatNode(self, n):
        exc = None
        if n.exc_type is not None:
            exc = self.expr(n.exc_type)
            if n.exc_value is not None:
                exc = ast.Call(
                    func=exc, args=[self.expr(n.exc_value)], keywords=[])
        cause = self.expr(n.cause) if getattr(
            n, 'cause', None) is not None else None
        return ast.Raise(exc=exc, cause=cause)

    def s_AssertStatNode(self, n):
        cond = getattr(n, 'condition', None)
        if cond is None:
            cond = getattr(n, 'cond', None)
        msg = getattr(n, 'value', None)
        return ast.Assert(
            test=self.expr(cond),
            msg=self.expr(msg) if msg is not None else None)

    def s_IfStatNode(self, n):
        clauses = list(n.if_clauses)
        orelse = self.stmts(n.else_clause)
        for c in reversed(clauses):
            node = ast.If(
                test=self.expr(c.condition),
                body=self.body(c.body), orelse=orelse)
            self.pos(c, node)
            orelse = [node]
        return orelse[0]

    def s_WhileStatNode(self, n):
        return ast.While(
            test=self.expr(n.condition), body=self.body(n.body),
            orelse=self.stmts(n.else_clause))

    def s_ForInStatNode(self, n):
        it = n.iterator
        seq = getattr(it, 'sequence', it)
        return ast.For(
            target=self.target(n.target), iter=self.expr(seq),
            body=self.body(n.body), orelse=self.stmts(n.else_clause))

    def s_TryFinallyStatNode(self, n):
        inner = n.body
        if type(inner).__name__ == 'TryExceptStatNode':
            t = self.s_TryExceptStatNode(inner)
            t.finalbody = self.body(n.finally_clause)
            return t
        return ast.Try(
            body=self.body(n.body), handlers=[], orelse=[],
            finalbody=self.body(n.finally_clause))

    def s_TryExceptStatNode(self, n):
        handlers = []
        for c in n.except_clauses:
            pat = c.pattern
            if pat is None:
                typ = None
            elif isinstance(pat, list):
                if len(pat) == 1:
                    typ = self.expr(pat[0])
                else:
                    typ = ast.Tuple(
                        elts=[self.expr(p) for p in pat], ctx=ast.Load())
            else:
                typ = self.expr(pat)
            name = None
            if c.target is not None:
                name = getattr(c.target, 'name', None)
            h = ast.ExceptHandler(
                type=typ, name=name, body=self.body(c.body))
            self.pos(c, h)
            handlers.append(h)
        return ast.Try(
            body=self.body(n.body), handlers=handlers,
            orelse=self.stmts(n.else_clause), finalbody=[])

    def s_WithStatNode(self, n):
        item = ast.withitem(
            context_expr=self.expr(n.manager),
            optional_vars=(
                self.target(n.target) if n.target is not None else None))
        return ast.With(items=[item], body=self.body(n.body))

    def s_GILStatNode(self, n):
        return self.stmts(n.body)

    def s_CVarDefNode(self, n):
        r = []
        for d in n.declarators:
            name = self.declname(d)
            fd = self.funcdeclarator(d)
            if fd is not None and name:
                # C function prototype (inside `cdef extern`)
                self.out.c_protos[name] = [
                    self.argname(a) for a in fd.args]
                continue
            t = self.typename(n.base_type, d)
            default = getattr(d, 'default', None)
            if not name:
                continue
            node = ast.AnnAssign(
                target=ast.Name(id=name, ctx=ast.Store()),
                annotation=ast.Constant(value=t),
                value=self.expr(default) if default is not None else None,
                simple=1)
            self.pos(n, node)
            r.append(node)
        return r

    def s_CDefExternNode(self, n):
        # walk for prototypes; keep a placeholder
        self.stmts(n.body)
        return ast.Expr(value=ast.Constant(value='<cdef extern>'))

    def placeholder(kind):
        def f(self, n):
            return ast.Expr(value=ast.Constant(value=f'<{kind}>'))
        return f

    s_CTypeDefNode = placeholder('ctypedef')
    s_CStructOrUnionDefNode = placeholder('cstruct')
    s_CEnumDefNode = placeholder('cenum')
    s_CImportStatNode = placeholder('cimport')
    s_FromCImportStatNode = placeholder('cimport')
    s_PropertyNode = None

    def s_PropertyNode(self, n):
        return self.stmts(n.body)

    def s_FromImportStatNode(self, n):
        mod = n.module
        modname = getattr(
            getattr(mod, 'module_name', None), 'value', '?')
        names = [ast.alias(name=str(nm), asname=None) for nm, _ in n.items]
        return ast.ImportFrom(module=str(modname), names=names, level=0)

    def argname(self, a):
        name = self.declname(a.declarator)
        if not name:
            name = getattr(a.base_type, 'name', None)
        return name

    def arg(self, a):
        name = self.declname(a.declarator)
        ann = None
        if not name:
            name = getattr(a.base_type, 'name', None)
        else:
            bt = getattr(a.base_type, 'name', None)
            if bt:
                ann = ast.Constant(value=self.typename(
                    a.base_type, a.declarator))
        annotation = getattr(a, 'annotation', None)
        if annotation is not None:
            ann = self.expr(getattr(annotation, 'expr', annotation))
        r = ast.arg(arg=str(name), annotation=ann)
        return self.pos(a, r)

    def arguments(self, args, star=None, starstar=None):
        posargs = []
        kwonly = []
        defaults = []
        kw_defaults = []
        for a in args:
            x = self.arg(a)
            if getattr(a, 'kw_only', 0):
                kwonly.append(x)
                kw_defaults.append(
                    self.expr(a.default) if a.default is not None else None)
            else:
                posargs.append(x)
                if a.default is not None:
                    defaults.append(self.expr(a.default))
        return ast.arguments(
            posonlyargs=[], args=posargs,
            vararg=(ast.arg(arg=star.name) if star is not None else None),
            kwonlyargs=kwonly, kw_defaults=kw_defaults,
            kwarg=(ast.arg(arg=starstar.name)
                   if starstar is not None else None),
            defaults=defaults)

    def s_DefNode(self, n):
        decos = []
        for d in (n.decorators or []):
            decos.append(self.expr(d.decorator))
        ret = None
        ra = getattr(n, 'return_type_annotation', None)
        if ra is not None:
            ret = self.expr(getattr(ra, 'expr', ra))
        return ast.FunctionDef(
            name=str(n.name),
            args=self.arguments(n.args, n.star_arg, n.starstar_arg),
            body=self.body(n.body), decorator_list=decos, returns=ret,
            type_params=[])

    def s_CFuncDefNode(self, n):
        fd = self.funcdeclarator(n.declarator)
        name = self.declname(n.declarator)
        decos = [ast.Name(id='__cdef__', ctx=ast.Load())]
        for d in (getattr(n, 'decorators', None) or []):
            decos.append(self.expr(d.decorator))
        ret = ast.Constant(value=self.typename(n.base_type, n.declarator))
        return ast.FunctionDef(
            name=str(name),
            args=self.arguments(fd.args if fd is not None else []),
            body=self.body(n.body), decorator_list=decos, returns=ret,
            type_params=[])

    def s_CClassDefNode(self, n):
        bases = []
        b = getattr(n, 'bases', None)
        if b is not None:
            for x in getattr(b, 'args', []):
                bases.append(self.expr(x))
        return ast.ClassDef(
            name=str(n.class_name), bases=bases, keywords=[],
            body=self.body(n.body), decorator_list=[
                ast.Name(id='__cdef__', ctx=ast.Load())],
            type_params=[])

    def s_PyClassDefNode(self, n):
        bases = []
        b = getattr(n, 'bases', None)
        if b is not None:
            for x in getattr(b, 'args', []):
                bases.append(self.expr(x))
        return ast.ClassDef(
            name=str(n.name), bases=bases, keywords=[],
            body=self.body(n.body), decorator_list=[], type_params=[])

    # ---- expressions
    def target(self, node, ctx=ast.Store):
        e = self.expr(node)
        self.set_ctx(e, ctx)
        return e

    def set_ctx(self, e, ctx):
        if isinstance(e, (ast.Name, ast.Attribute, ast.Subscript,
                          ast.Starred)):
            e.ctx = ctx()
            if isinstance(e, ast.Starred):
                self.set_ctx(e.value, ctx)
        elif isinstance(e, (ast.Tuple, ast.List)):
            e.ctx = ctx()
            for x in e.elts:
                self.set_ctx(x, ctx)

    def expr(self, node):
        if node is None:
            return ast.Constant(value=None)
        self.out.n_nodes += 1
        k = type(node).__name__
        m = getattr(self, 'e_' + k, None)
        if m is None:
            # binary operator nodes share attributes
            if hasattr(node, 'operator') and hasattr(node, 'operand1') \
                    and hasattr(node, 'operand2') \
                    and node.operator in _BINOPS:
                r = ast.BinOp(
                    left=self.expr(node.operand1),
                    op=_BINOPS[node.operator](),
                    right=self.expr(node.operand2))
                return self.pos(node, r)
            self.out.unknown[k] += 1
            kids = []
            for attr in getattr(node, 'child_attrs', []):
                c = getattr(node, attr, None)
                if c is None:
                    continue
                if isinstance(c, list):
                    kids.extend(self.expr(x) for x in c if x is not None)
                else:
                    try:
                        kids.append(self.expr(c))
                    except Exception:
                        pass
            r = ast.Call(
                func=ast.Name(id=f'__cy_{k}__', ctx=ast.Load()),
                args=kids, keywords=[])
            return self.pos(node, r)
        return self.pos(node, m(node))

    def e_NameNode(self, n):
        return ast.Name(id=str(n.name), ctx=ast.Load())

    def e_AttributeNode(self, n):
        return ast.Attribute(
            value=self.expr(n.obj), attr=str(n.attribute), ctx=ast.Load())

    def e_SimpleCallNode(self, n):
        return ast.Call(
            func=self.expr(n.function),
            args=[self.expr(a) for a in n.args], keywords=[])

    def e_GeneralCallNode(self, n):
        args = []
        pa = n.positional_args
        if type(pa).__name__ == 'TupleNode':
            args = [self.expr(a) for a in pa.args]
        elif pa is not None:
            args = [ast.Starred(value=self.expr(pa), ctx=ast.Load())]
        kws = []
        ka = n.keyword_args
        kws = self.keywords(ka)
        return ast.Call(func=self.expr(n.function), args=args, keywords=kws)

    def keywords(self, ka):
        kws = []
        if ka is None:
            return kws
        k = type(ka).__name__
        if k == 'DictNode':
            for item in ka.key_value_pairs:
                key = getattr(item.key, 'value', None)
                kws.append(ast.keyword(
                    arg=str(key), value=self.expr(item.value)))
        elif k == 'MergedDictNode':
            for sub in ka.keyword_args:
                kws.extend(self.keywords(sub))
        else:
            kws.append(ast.keyword(arg=None, value=self.expr(ka)))
        return kws

    def e_IndexNode(self, n):
        return ast.Subscript(
            value=self.expr(n.base), slice=self.expr(n.index),
            ctx=ast.Load())

    def e_SliceIndexNode(self, n):
        return ast.Subscript(
            value=self.expr(n.base),
            slice=ast.Slice(
                lower=self.expr(n.start) if n.start is not None else None,
                upper=self.expr(n.stop) if n.stop is not None else None,
                step=None),
            ctx=ast.Load())

    def e_TupleNode(self, n):
        return ast.Tuple(
            elts=[self.expr(a) for a in n.args], ctx=ast.Load())

    def e_ListNode(self, n):
        return ast.List(
            elts=[self.expr(a) for a in n.args], ctx=ast.Load())

    def e_SetNode(self, n):
        return ast.Set(elts=[self.expr(a) for a in n.args])

    def e_DictNode(self, n):
        return ast.Dict(
            keys=[self.expr(i.key) for i in n.key_value_pairs],
            values=[self.expr(i.value) for i in n.key_value_pairs])

    def e_MergedDictNode(self, n):
        keys, values = [], []
        for sub in n.keyword_args:
            if type(sub).__name__ == 'DictNode':
                for i in sub.key_value_pairs:
                    keys.append(self.expr(i.key))
                    values.append(self.expr(i.value))
            else:
                keys.append(None)
                values.append(self.expr(sub))
        return ast.Dict(keys=keys, values=values)

    def e_StarredUnpackingNode(self, n):
        return ast.Starred(value=self.expr(n.target), ctx=ast.Load())

    def e_IntNode(self, n):
        v = str(n.value)
        try:
            return ast.Constant(value=int(v.rstrip('uUlL'), 0))
        except ValueError:
            return ast.Constant(value=v)

    def e_FloatNode(self, n):
        try:
            return ast.Constant(value=float(n.value))
        except ValueError:
            return ast.Constant(value=str(n.value))

    def e_BoolNode(self, n):
        return ast.Constant(value=bool(n.value))

    def e_NoneNode(self, n):
        return ast.Constant(value=None)

    def e_EllipsisNode(self, n):
        return ast.Constant(value=Ellipsis)

    def e_NullNode(self, n):
        return ast.Name(id='NULL', ctx=ast.Load())

    def e_UnicodeNode(self, n):
        return ast.Constant(value=str(n.value))

    e_StringNode = e_UnicodeNode
    e_IdentifierStringNode = e_UnicodeNode

    def e_BytesNode(self, n):
        v = n.value
        try:
            return ast.Constant(value=bytes(v, 'latin1'))
        except Exception:
            return ast.Constant(value=str(v))

    def e_CharNode(self, n):
        return ast.Constant(value=str(n.value))

    def e_JoinedStrNode(self, n):
        vals = []
        for v in n.values:
            e = self.expr(v)
            if not isinstance(e, (ast.FormattedValue, ast.Constant)):
                e = ast.FormattedValue(
                    value=e, conversion=-1, format_spec=None)
            vals.append(e)
        return ast.JoinedStr(values=vals)

    def e_FormattedValueNode(self, n):
        return ast.FormattedValue(
            value=self.expr(n.value), conversion=-1, format_spec=None)

    def cmp_chain(self, n):
        ops = []
        comps = []
        c = n
        while c is not None:
            op = c.operator
            ops.append(_CMPOPS.get(op, ast.Eq)())
            comps.append(self.expr(c.operand2))
            c = getattr(c, 'cascade', None)
        return ops, comps

    def e_PrimaryCmpNode(self, n):
        ops, comps = self.cmp_chain(n)
        return ast.Compare(
            left=self.expr(n.operand1), ops=ops, comparators=comps)

    def e_BoolBinopNode(self, n):
        op = ast.And() if n.operator == 'and' else ast.Or()
        return ast.BoolOp(
            op=op, values=[self.expr(n.operand1), self.expr(n.operand2)])

    def e_NotNode(self, n):
        return ast.UnaryOp(op=ast.Not(), operand=self.expr(n.operand))

    def e_UnaryMinusNode(self, n):
        return ast.UnaryOp(op=ast.USub(), operand=self.expr(n.operand))

    def e_UnaryPlusNode(self, n):
        return ast.UnaryOp(op=ast.UAdd(), operand=self.expr(n.operand))

    def e_TildeNode(self, n):
        return ast.UnaryOp(op=ast.Invert(), operand=self.expr(n.operand))

    def e_AmpersandNode(self, n):
        return ast.Call(
            func=ast.Name(id='__addr__', ctx=ast.Load()),
            args=[self.expr(n.operand)], keywords=[])

    def e_TypecastNode(self, n):
        t = self.typename(n.base_type, getattr(n, 'declarator', None))
        return ast.Call(
            func=ast.Name(id='__cast__', ctx=ast.Load()),
            args=[ast.Constant(value=t), self.expr(n.operand)],
            keywords=[])

    def e_SizeofTypeNode(self, n):
        t = self.typename(n.base_type, getattr(n, 'declarator', None))
        return ast.Call(
            func=ast.Name(id='sizeof', ctx=ast.Load()),
            args=[ast.Constant(value=t)], keywords=[])

    def e_SizeofVarNode(self, n):
        return ast.Call(
            func=ast.Name(id='sizeof', ctx=ast.Load()),
            args=[self.expr(n.operand)], keywords=[])

    def e_CondExprNode(self, n):
        return ast.IfExp(
            test=self.expr(n.test), body=self.expr(n.true_val),
            orelse=self.expr(n.false_val))

    def e_YieldExprNode(self, n):
        return ast.Yield(
            value=self.expr(n.arg) if n.arg is not None else None)

    def e_YieldFromExprNode(self, n):
        return ast.YieldFrom(value=self.expr(n.arg))

    def e_LambdaNode(self, n):
        return ast.Lambda(
            args=self.arguments(n.args, n.star_arg, n.starstar_arg),
            body=self.expr(n.result_expr))

    def e_AnnotationNode(self, n):
        return self.expr(n.expr)

    def e_ImportNode(self, n):
        name = getattr(n.module_name, 'value', '?')
        return ast.Call(
            func=ast.Name(id='__import__', ctx=ast.Load()),
            args=[ast.Constant(value=str(name))], keywords=[])

    # comprehensions: ComprehensionNode(loop=ForInStatNode ... append)
    def comp_parts(self, loop):
        gens = []
        node = loop
        elt = None
        while node is not None:
            k = type(node).__name__
            if k == 'StatListNode':
                if len(node.stats) != 1:
                    break
                node = node.stats[0]
            elif k in ('ForInStatNode',):
                it = node.iterator
                seq = getattr(it, 'sequence', it)
                gens.append(ast.comprehension(
                    target=self.target(node.target),
                    iter=self.expr(seq), ifs=[], is_async=0))
                node = node.body
            elif k == 'IfStatNode':
                c = node.if_clauses[0]
                if gens:
                    gens[-1].ifs.append(self.expr(c.condition))
                node = c.body
            elif k == 'ExprStatNode':
                node = node.expr
            elif k in ('ComprehensionAppendNode',):
                elt = ('elt', self.expr(node.expr))
                break
            elif k == 'DictComprehensionAppendNode':
                elt = ('kv', self.expr(node.key_expr),
                       self.expr(node.value_expr))
                break
            elif k == 'YieldExprNode':
                elt = ('elt', self.expr(node.arg))
                break
            else:
                break
        return gens, elt

    def e_ComprehensionNode(self, n):
        gens, elt = self.comp_parts(n.loop)
        if not gens or elt is None:
            self.out.unknown['ComprehensionNode?'] += 1
            return ast.Call(
                func=ast.Name(id='__cy_comp__', ctx=ast.Load()),
                args=[], keywords=[])
        if elt[0] == 'kv':
            return ast.DictComp(key=elt[1], value=elt[2], generators=gens)
        tname = str(getattr(n, 'type', ''))
        if 'set' in tname:
            return ast.SetComp(elt=elt[1], generators=gens)
        return ast.ListComp(elt=elt[1], generators=gens)

    def e_GeneratorExpressionNode(self, n):
        loop = getattr(n, 'loop', None)
        if loop is None:
            d = getattr(n, 'def_node', None)
            loop = getattr(d, 'body', None) if d is not None else None
            gb = getattr(d, 'gbody', None) if d is not None else None
            if gb is not None:
                loop = gb.body
        gens, elt = self.comp_parts(loop)
        if not gens or elt is None:
            self.out.unknown['GeneratorExpressionNode?'] += 1
            return ast.Call(
                func=ast.Name(id='__cy_genexp__', ctx=ast.Load()),
                args=[], keywords=[])
        return ast.GeneratorExp(elt=elt[1], generators=gens)


def _coerce_identifiers(mod):
    """Make every identifier / string constant an exact `str`."""
    for node in ast.walk(mod):
        for field in ('id', 'attr', 'name', 'arg', 'asname', 'module'):
            v = getattr(node, field, None)
            if isinstance(v, str) and type(v) is not str:
                setattr(node, field, str.__str__(v))
        if isinstance(node, ast.Constant):
            v = node.value
            if isinstance(v, str) and type(v) is not str:
                node.value = str.__str__(v)


def lower(path, modname):
    """Return `Lowered` for the Cython source at `path`."""
    tree = parse_cython(path, modname)
    lw = _Lowerer()
    body = lw.stmts(tree.body)
    mod = ast.Module(body=body, type_ignores=[])
    _coerce_identifiers(mod)
    ast.fix_missing_locations(mod)
    lw.out.module = mod
    return lw.out
