"""Differential self-test of the small-model interpreter: each snippet is
the body of a function without parameters; its result under
ddverif/interp.py must equal its result under CPython.  This validates the
tool, not the package: none of the snippets comes from /repo.  (Two
deliberate deviations are not tested: the iteration order of sets and the
identity of equal numbers / strings / tuples, which the interpreter
resolves adversarially.)"""
import ast
import textwrap

from . import interp

SNIPPETS = [
    "return min(3, 1, 2), max([4, 9, 2]), min(x for x in (5, 3))",
    "return min([[2, 1], [1, 5]]), max((1, 2), (1, 3))",
    "a, b = zip(*[(1, 2), (3, 4), (5, 6)])\nreturn a, b",
    "a, *b = [1, 2, 3]\n*c, d = (4, 5, 6)\nreturn a, b, c, d",
    "d = dict(a=1)\nd.setdefault('b', []).append(2)\nreturn d",
    "d = {1: 2, 3: 4}\nx = d.pop(1)\ny = d.pop(9, None)\nreturn d, x, y",
    "d = {1: 2}\ntry:\n    d[5]\nexcept KeyError:\n    return 'k'\nreturn 'n'",
    "try:\n    int('x')\nexcept (TypeError, ValueError):\n    r = 1\nelse:\n    r = 2\nfinally:\n    s = 3\nreturn r, s",
    "for i in range(5):\n    if i == 3:\n        break\nelse:\n    i = -1\nreturn i",
    "for i in range(2):\n    pass\nelse:\n    i = -1\nreturn i",
    "n = 0\nwhile n < 10:\n    n += 3\n    if n == 6:\n        continue\nreturn n",
    "def f(x, y=2):\n    return x * y\nreturn f(3), f(3, y=4), f(y=1, x=5)",
    "k = 10\ndef g(x):\n    return x + k\nk = 20\nreturn g(1)",
    "f = lambda a, b=1: (a, b)\nreturn f(1), f(1, 2)",
    "t = {'and': lambda u, v: (u, v, -1), 'or': lambda u, v: (u, 1, v)}\nreturn t['or'](2, 3), t.get('xor')",
    "xs = [3, 1, 2]\nxs.sort()\nys = sorted(xs, reverse=True)\nreturn xs, ys, xs.index(2)",
    "return [x * y for x in range(3) for y in range(2) if x != y]",
    "return {k: v for k, v in zip('abc', range(3))}, {x % 2 for x in range(5)} == {0, 1}",
    "s = {1, 2}\ns.add(3)\ns.discard(9)\ns.remove(1)\nreturn sorted(s), 2 in s, 1 not in s",
    "a = [1, 2]\nb = a\nb.append(3)\nreturn a, a is b, a == [1, 2, 3]",
    "x = None\nreturn x is None, x is not None, (x or 5), (0 and 7), (3 and 7), ('' or 'e')",
    "return 1 < 2 < 3, 1 < 3 < 2, 2 == 2.0, not 0, -(-3), 7 // 2, 7 % 3, 2 ** 5",
    "return 'a b c'.split(' '), '-'.join(['x', 'y']), 'AbC'.lower(), ' x '.strip(), 'ab'.startswith('a')",
    "x = 5\nreturn 'p' if x > 3 else 'q', 'p' if x < 3 else 'q'",
    "match 3:\n    case 1 | 2:\n        r = 'a'\n    case int():\n        r = 'b'\n    case _:\n        r = 'c'\nreturn r",
    "match 'T':\n    case 'F':\n        return -1\n    case 'T':\n        return 1\nreturn 0",
    "d = {'a': {'len': 3}}\nreturn d['a']['len'], len(d), list(d), list(d.items()), list(d.values())",
    "it = iter([1, 2, 3, 4])\nfor x in it:\n    if x == 2:\n        break\nrest = [y for y in it]\nreturn rest",
    "return list(enumerate('ab', 1)), list(reversed([1, 2, 3])), list(map(abs, [-1, 2])), list(filter(None, [0, 1, 2]))",
    "return any(x > 2 for x in [1, 2, 3]), all(x > 2 for x in [1, 2, 3]), sum([1, 2, 3]), abs(-4)",
    "t = (1, 2, 3)\nreturn t[0], t[-1], t + (4,), t * 2, len(t), t.count(2)",
    "d = dict()\nd[(1, 2)] = 'x'\nreturn (1, 2) in d, d.get((2, 1)), {**d, 'k': 1}",
    "return isinstance(3, int), isinstance(True, int), isinstance('a', (int, str)), isinstance({}, dict)",
    "def gen_free(xs):\n    out = []\n    for x in xs:\n        if x < 0:\n            continue\n        out.append(x)\n    return out\nreturn gen_free([1, -1, 2])",
    "x = 1\nx += 2\nx *= 3\nx -= 1\nd = {'k': 1}\nd['k'] += 5\nreturn x, d",
    "try:\n    try:\n        raise ValueError('a')\n    finally:\n        z = 1\nexcept Exception:\n    return z\nreturn 0",
    "try:\n    [][1]\nexcept LookupError:\n    return 'lookup'\nreturn 'none'",
    "a, b = 1, 2\na, b = b, a\nreturn a, b",
    "u = -3\nr = -1 if u < 0 else 1\nreturn r * abs(u), (u,) * 2",
    "d = {}\nfor k in ('x', 'y', 'x'):\n    d[k] = d.get(k, 0) + 1\nreturn d",
    "return dict(zip([1, 2], 'ab')), dict([(1, 2)]), dict({1: 2}, b=3), list(range(4, 0, -1))",
    "xs = [1, 2, 3]\nreturn xs.pop(), xs.pop(0), xs",
    "return max([1, 5, 3], key=lambda x: -x), sorted(['bb', 'a'], key=len)",
    "acc = []\ndef push(x):\n    acc.append(x)\n    return len(acc)\nn = push(1) + push(2)\nreturn acc, n",
    "d = {1: 'a', 2: 'b'}\ndel d[1]\nxs = [1, 2, 3]\ndel xs[0]\nreturn d, xs",
    "a = {1, 2, 3}\nb = {2, 3, 4}\nreturn sorted(a | b), sorted(a & b), sorted(a - b), a <= b, a.issubset(a | b)",
    "d = {'x': 1}\nd.update({'y': 2})\nd.update(z=3)\nxs = [1]\nxs.extend([2, 3])\nxs.insert(0, 0)\nreturn d, xs",
    "return 3 in range(5), 5 in range(5), [1, 2, 3][-1], [1, 2, 3][1:], (1, 2, 3)[:2]",
    "x = 3\nreturn f'{x}' == '3', '%d' % x, '{}'.format(x)",
    "t = (1, (2, 3))\na, (b, c) = t\nreturn a + b + c",
    "def outer():\n    y = 2\n    def inner(z):\n        return y * z\n    return inner\nreturn outer()(5)",
    "r = []\nfor i, (a, b) in enumerate([(1, 2), (3, 4)]):\n    r.append(i * a + b)\nreturn r",
    "try:\n    x = {}['k']\nexcept KeyError as e:\n    x = 'caught'\nreturn x",
    "try:\n    assert 1 == 2, 'no'\nexcept AssertionError:\n    return 'assert'\nreturn 'ok'",
    "n = 0\nfor i in range(3):\n    for j in range(3):\n        if j == 1:\n            break\n        n += 1\nreturn n",
    "u = 5\nreturn (u > 0) == True, bool(u), bool([]), int('7'), int(' 8\\n'), str(9), tuple([1]), list((1,)), set([1, 1]) == {1}",
    "xs = [3, 1, 2]\nreturn sorted(xs) == [1, 2, 3] and xs == [3, 1, 2], list(zip(xs, 'ab'))",
    "d = {k: [] for k in range(2)}\nd[0].append(1)\nreturn d",
    "level_map = {0: 2, 1: 0}\nreturn {level_map[i]: v for i, v in {0: 'a', 1: 'b'}.items()}",
    "g = (i for i in range(10) if i % 3 == 2)\nreturn next(g, None), next(g), list(g), next(g, 'end')",
    "succ = {1: 0, 2: 0}\nfree = next((i for i in range(1, 9) if i not in succ), None)\nnone = next((i for i in range(1, 3) if i not in succ), None)\nreturn free, none",
    "log = []\ndef f(x):\n    log.append(x)\n    return x * 2\ng = (f(x) for x in [1, 2, 3])\na = next(g)\nreturn a, log",
    "kinds = ('unary', 'binary', 'ternary')\nops = {'unary': {'~'}, 'binary': {'&'}, 'ternary': {'ite'}}\nreturn next((k for k, kind in enumerate(kinds, 1) if '&' in ops[kind]), None)",
    "pairs = zip(*((x, x + 1) for x in (1, 2, 3)))\nlo, hi = pairs\nreturn lo, hi, sum(x for x in lo), min(x for x in hi), tuple(x for x in lo), dict((x, 1) for x in lo)",
    "import_free = any(x > 1 for x in [0, 1, 2])\nreturn import_free, sorted(x for x in {3, 1, 2}), set(x for x in [1, 1, 2])",
    "def gen(xs):\n    for x in xs:\n        if x < 0:\n            return\n        yield x * 2\n    yield 'end'\nreturn list(gen([1, 2])), list(gen([1, -1, 2])), next(gen([]), None)",
    "def pairs(d):\n    yield from d.items()\n    yield ('z', 0)\nfor k, v in pairs({'a': 1}):\n    if v == 0:\n        return k\nreturn None",
    "class Box:\n    def __init__(self, x):\n        self.x = x\n        self.log = []\n    def bump(self, k=1):\n        self.x += k\n        self.log.append(self.x)\n        return self\nb = Box(1)\nb.bump().bump(5)\nreturn b.x, b.log, hasattr(b, 'x'), hasattr(b, 'y')",
    "log = []\nclass Guard:\n    def __init__(self, name):\n        self.name = name\n    def __enter__(self):\n        log.append('in ' + self.name)\n        return self.name\n    def __exit__(self, t, v, tb):\n        log.append(('out', self.name, t is None))\n        return False\ndef f():\n    with Guard('a') as n:\n        log.append(n)\n        return 7\nr = f()\ntry:\n    with Guard('b'):\n        raise ValueError('x')\nexcept ValueError:\n    log.append('caught')\nreturn r, log",
    "class V:\n    def __init__(self, n):\n        self.n = n\n    def __and__(self, o):\n        return V(min(self.n, o.n))\n    def __or__(self, o):\n        return V(max(self.n, o.n))\n    def __xor__(self, o):\n        return V(self.n ^ o.n)\nreturn (V(3) & V(5)).n, (V(3) | V(5)).n, (V(3) ^ V(5) & V(1)).n",
    "class Base:\n    def hello(self):\n        return 'base'\nclass D(Base):\n    def __init__(self, x):\n        self.x = x\n    def twice(self):\n        return 2 * self.x\nreturn D(4).twice(), D(1).x",
    "def rename(u, d):\n    return ('module', u, d)\nclass M:\n    def rename(self, u):\n        return rename(u, self.tag)\n    def __init__(self):\n        self.tag = 't'\nreturn M().rename(3)",
    "class P:\n    def __init__(self, xs):\n        self.xs = xs\n    @property\n    def first(self):\n        return self.xs[0]\n    def __contains__(self, x):\n        return x in self.xs\n    def __len__(self):\n        return len(self.xs) + 10\n    def __eq__(self, o):\n        return isinstance(o, P) and self.xs == o.xs\n    def __iter__(self):\n        return iter(self.xs)\np = P([3, 4])\nreturn p.first, 3 in p, 5 not in p, len(p), p == P([3, 4]), p != P([1]), p == 7, [x for x in p]",
    "class A:\n    pass\nclass B:\n    pass\ndef kind(v):\n    match v:\n        case str() | bool():\n            return 's'\n        case A():\n            return 'a'\n        case _:\n            return '?'\nreturn kind(A()), kind(B()), kind('x'), kind(True), kind(3), isinstance(A(), A), isinstance(B(), A), isinstance(3, A), isinstance(A(), (int, A)), isinstance(A(), int)",
    "class N:\n    def __init__(self, n):\n        self.n = n\n    def __int__(self):\n        return self.n\n    def __invert__(self):\n        return N(-self.n)\n    def __len__(self):\n        return self.n\n    def __neg__(self):\n        return N(self.n + 100)\nz = N(0)\nk = N(2)\nreturn int(k), int(~k), (-k).n, bool(z), bool(k), ('t' if z else 'f'), ('t' if k else 'f'), not z, (z or 5), (k and 6), [x for x in (1, 2) if k]",
    "class G:\n    def __init__(self):\n        self.nodes = {}\n        self.edges = []\n    def add_node(self, u, **attrs):\n        self.nodes.setdefault(u, {}).update(attrs)\n    def add_edge(self, u, v, key=None, **attrs):\n        self.nodes.setdefault(u, {})\n        self.nodes.setdefault(v, {})\n        self.edges.append((u, v, dict(attrs)))\n    def __contains__(self, u):\n        return u in self.nodes\ng = G()\ng.add_node(3, level=0)\ng.add_edge(3, 1, value=False, complement=True)\ng.add_node(1, level=2)\nreturn g.nodes, g.edges, 1 in g, 7 in g",
    "class K:\n    def __init__(self, n):\n        self.n = n\n    def __hash__(self):\n        return self.n\nreturn hash(5), hash(-1), hash(K(-1)), hash(K(7)), hash(True), f'@{hash(K(-1))}'",
    "class Swallow:\n    def __enter__(self):\n        return None\n    def __exit__(self, t, v, tb):\n        return t is not None\nwith Swallow():\n    raise KeyError('k')\nreturn 'after'",
    "xs = [1, 2, 3, 4]\nreturn xs[:-1], xs[1:], xs[::2], 'abcd'[1:3], (1, 2, 3)[:2]",
    "def f(a, b=0, **kw):\n    return a, b, kw\nd = dict(b=2, c=3)\nreturn f(1, **d), f(1, **{})",
    "def f():\n    try:\n        raise KeyError('k')\n    except KeyError:\n        raise\ntry:\n    f()\nexcept LookupError:\n    return 'reraised'\nreturn 'no'",
    "import contextlib\nlog = []\n@contextlib.contextmanager\ndef res(name):\n    log.append('make ' + name)\n    try:\n        yield name.upper()\n    finally:\n        log.append('drop ' + name)\ndef use(fail):\n    with res('a') as r, res('b') as q:\n        log.append(r + q)\n        if fail:\n            raise ValueError('x')\n        return 1\nout = use(False)\ntry:\n    use(True)\nexcept ValueError:\n    log.append('caught')\nreturn out, log",
    "def f(*args, **kw):\n    return args, kw\nreturn f(1, 2, k=3), f(*[4, 5], **{'z': 6})",
]


def run(verbose=False):
    bad = []
    for k, body in enumerate(SNIPPETS):
        src = 'def f():\n' + textwrap.indent(body, '    ')
        ns = dict()
        exec(compile(src, f'<snippet {k}>', 'exec'), ns)
        try:
            want = ('return', ns['f']())
        except Exception as e:
            want = ('raise', type(e).__name__)
        fn = ast.parse(src).body[0]
        try:
            out, _ = interp.run_function(fn, dict(), dict())
            got = ('return', out[1]) if out[0] in ('return', 'fall') \
                else ('raise', out[1])
        except interp.Unknown as e:
            got = ('unknown', str(e))
        if got[0] == 'unknown':
            # declining is allowed (it makes a rule undecided), a wrong
            # answer is not
            if verbose:
                print(f'snippet {k}: declined ({got[1]})')
            continue
        if got != want:
            bad.append((k, body, want, got))
    return len(SNIPPETS), bad


if __name__ == '__main__':
    n, bad = run(verbose=True)
    for k, body, want, got in bad:
        print(f'snippet {k}:\n{body}\n  CPython: {want}\n  interp:  {got}')
    print(f'{n} snippets, {len(bad)} disagree')
    raise SystemExit(1 if bad else 0)
