"""Small helpers over `ast` shared by the engines."""
import ast


def src(node):
    """Normalised source text of `node` (used in reports and keys)."""
    try:
        return ast.unparse(node)
    except Exception:
        return f'<{type(node).__name__}>'


def short(node, n=100):
    s = ' '.join(src(node).split())
    return s if len(s) <= n else s[:n - 3] + '...'


def chain(expr):
    """`a.b.c` -> ['a', 'b', 'c']; None if not a pure attribute chain."""
    parts = []
    while isinstance(expr, ast.Attribute):
        parts.append(expr.attr)
        expr = expr.value
    if isinstance(expr, ast.Name):
        parts.append(expr.id)
        return list(reversed(parts))
    return None


def call_name(call):
    """Last component of the callee (`self.ite` -> 'ite')."""
    if not isinstance(call, ast.Call):
        return None
    f = call.func
    if isinstance(f, ast.Attribute):
        return f.attr
    if isinstance(f, ast.Name):
        return f.id
    return None


def call_recv(call):
    """Receiver chain of the callee (`self._bdd.ite` -> ['self','_bdd'])."""
    f = call.func
    if isinstance(f, ast.Attribute):
        return chain(f.value)
    return []


def names_loaded(node):
    """Set of identifiers read anywhere inside `node`."""
    r = set()
    for n in ast.walk(node):
        if isinstance(n, ast.Name):
            r.add(n.id)
    return r


def target_names(target):
    """Identifiers bound by an assignment target."""
    r = set()
    for n in ast.walk(target):
        if isinstance(n, ast.Name) and isinstance(
                n.ctx, (ast.Store, ast.Del)):
            r.add(n.id)
        elif isinstance(n, ast.Name):
            # lowered Cython targets may carry Load ctx in nests
            pass
    return r


def assigned_names(stmt):
    """Names (re)bound by statement `stmt` (not descending into defs)."""
    r = set()
    if isinstance(stmt, ast.Assign):
        for t in stmt.targets:
            r |= target_names(t)
    elif isinstance(stmt, (ast.AugAssign, ast.AnnAssign)):
        r |= target_names(stmt.target)
    elif isinstance(stmt, ast.For):
        r |= target_names(stmt.target)
    elif isinstance(stmt, ast.With):
        for it in stmt.items:
            if it.optional_vars is not None:
                r |= target_names(it.optional_vars)
    return r


def walk_no_defs(node):
    """`ast.walk` that does not enter nested function/class definitions
    (the root itself is always entered)."""
    todo = [node]
    first = True
    while todo:
        n = todo.pop()
        if not first and isinstance(
                n, (ast.FunctionDef, ast.AsyncFunctionDef,
                    ast.ClassDef, ast.Lambda)):
            continue
        first = False
        yield n
        todo.extend(ast.iter_child_nodes(n))


def calls_in(node, name=None):
    """All `ast.Call` nodes under `node` (optionally with callee `name`)."""
    for n in walk_no_defs(node):
        if isinstance(n, ast.Call):
            if name is None or call_name(n) == name:
                yield n


def is_const(node, value=None):
    if isinstance(node, ast.Constant):
        return value is None or (
            node.value == value and type(node.value) is type(value))
    return False


def const_int(node):
    """Integer value of `1`, `-1`, ... or None."""
    if isinstance(node, ast.Constant) and type(node.value) is int:
        return node.value
    if (isinstance(node, ast.UnaryOp) and isinstance(node.op, ast.USub)
            and isinstance(node.operand, ast.Constant)
            and type(node.operand.value) is int):
        return -node.operand.value
    return None


def is_name(node, ident=None):
    return isinstance(node, ast.Name) and (
        ident is None or node.id == ident)


def is_abs_of(node, ident=None):
    """`abs(x)` (x a plain name, optionally `ident`) -> x's id or None."""
    if (isinstance(node, ast.Call) and is_name(node.func, 'abs')
            and len(node.args) == 1 and isinstance(node.args[0], ast.Name)):
        if ident is None or node.args[0].id == ident:
            return node.args[0].id
    return None


def raises_assertion(stmt):
    """True for `raise AssertionError(...)` and `assert ...`."""
    if isinstance(stmt, ast.Assert):
        return True
    if isinstance(stmt, ast.Raise):
        e = stmt.exc
        if isinstance(e, ast.Call):
            e = e.func
        if isinstance(e, ast.Name) and e.id == 'AssertionError':
            return True
    return False


def raised_name(stmt):
    """Name of the exception class raised by `stmt` (or None)."""
    if not isinstance(stmt, ast.Raise):
        return None
    e = stmt.exc
    if e is None:
        return '<reraise>'
    if isinstance(e, ast.Call):
        e = e.func
    if isinstance(e, ast.Name):
        return e.id
    if isinstance(e, ast.Attribute):
        return e.attr
    return '<expr>'


def only_abort(stmts):
    """A block that does nothing but end in an assertion failure."""
    if not stmts:
        return False
    for s in stmts[:-1]:
        if not isinstance(s, (ast.Assign, ast.Expr, ast.AnnAssign)):
            return False
    return raises_assertion(stmts[-1])


def set_parents(tree):
    for node in ast.walk(tree):
        for child in ast.iter_child_nodes(node):
            child._parent = node
    return tree


def enclosing(node, kinds):
    p = getattr(node, '_parent', None)
    while p is not None and not isinstance(p, kinds):
        p = getattr(p, '_parent', None)
    return p


def literal_strings(node):
    """String constants of a tuple/list/set literal or a single constant."""
    if isinstance(node, ast.Constant) and isinstance(node.value, str):
        return [node.value]
    if isinstance(node, (ast.Tuple, ast.List, ast.Set)):
        r = []
        for e in node.elts:
            if isinstance(e, ast.Constant) and isinstance(e.value, str):
                r.append(e.value)
            else:
                return None
        return r
    return None


def assignments_to(fn, name):
    """All `name = value` (single target) assignments in `fn`, by line."""
    out = [x for x in walk_no_defs(fn) if isinstance(x, ast.Assign)
           and len(x.targets) == 1 and is_name(x.targets[0], name)]
    return sorted(out, key=lambda x: x.lineno)


def names_defined_by(fn, pred):
    """Names whose (single-target) assignment value satisfies `pred`."""
    out = []
    for x in sorted((y for y in walk_no_defs(fn)
                     if isinstance(y, ast.Assign)),
                    key=lambda y: y.lineno):
        if len(x.targets) == 1 and isinstance(
                x.targets[0], ast.Name) and pred(x.value):
            out.append(x.targets[0].id)
    return out


def alias_of(fn, name, depth=0):
    """Follow `a = b` aliases of plain names to the original name."""
    while depth < 5:
        defs = assignments_to(fn, name)
        if len(defs) == 1 and isinstance(defs[0].value, ast.Name):
            name = defs[0].value.id
            depth += 1
        else:
            break
    return name


def blocks_of(fn):
    """Every statement list of a function (bodies, else/finally arms, case
    bodies), nested functions excluded."""
    out = []

    def visit(stmts):
        out.append(stmts)
        for s in stmts:
            if isinstance(s, (ast.FunctionDef, ast.AsyncFunctionDef,
                              ast.ClassDef)):
                continue
            for name in ('body', 'orelse', 'finalbody'):
                sub = getattr(s, name, None)
                if isinstance(sub, list) and sub and isinstance(
                        sub[0], ast.stmt):
                    visit(sub)
            for h in getattr(s, 'handlers', []) or []:
                visit(h.body)
            for c in getattr(s, 'cases', []) or []:
                visit(c.body)
    visit(fn.body)
    return out


def positions(fn):
    """Depth-first (source order) position of every node under `fn`:
    orders statements where line numbers do not (statements of an
    expanded helper all carry the line of the call they replace)."""
    pos = dict()
    k = [0]

    def visit(n):
        pos[id(n)] = k[0]
        k[0] += 1
        for c in ast.iter_child_nodes(n):
            visit(c)
    visit(fn)
    return pos
