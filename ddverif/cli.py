"""Command line: `check <ID> [--tier quick|thorough] [--repo DIR]`."""
import argparse
import os
import sys
import traceback

from . import frontend, props, report


def main(argv=None):
    ap = argparse.ArgumentParser(prog='check')
    ap.add_argument('prop')
    ap.add_argument('--tier', default=os.environ.get('VERIF_TIER', 'quick'),
                    choices=['quick', 'thorough'])
    ap.add_argument('--repo', default=os.environ.get('DD_REPO', '/repo'))
    ap.add_argument('--replay', default=None)
    ap.add_argument('--no-selftest', action='store_true')
    args = ap.parse_args(argv)
    seed = int(os.environ.get('VERIF_SEED', '0') or 0)
    if args.prop == 'all':
        rc = 0
        for pid in sorted(props.PROPS):
            r = run_one(pid, args, seed)
            rc = max(rc, r)
        return rc
    if args.prop not in props.PROPS:
        print(f'ANALYSIS-ERROR unknown property {args.prop}')
        return 2
    return run_one(args.prop, args, seed)


RULE_SECONDS = 120
_PROGRAMS = dict()   # one parse per tree and process


class _time_limit:
    """A rule that does not terminate on an unforeseen shape of the source
    is an analysis error, not a hang."""

    def __init__(self, seconds, name):
        self.seconds, self.name = seconds, name

    def _fire(self, *a):
        raise frontend.AnalysisError(
            f'rule did not finish within {self.seconds}s')

    def __enter__(self):
        import signal
        try:
            self.old = signal.signal(signal.SIGALRM, self._fire)
            signal.setitimer(signal.ITIMER_REAL, self.seconds)
        except ValueError:      # not in the main thread
            self.old = None

    def __exit__(self, *a):
        import signal
        if self.old is not None:
            signal.setitimer(signal.ITIMER_REAL, 0)
            signal.signal(signal.SIGALRM, self.old)
        return False


def run_one(pid, args, seed):
    try:
        meta = props.PROPS[pid]
        key = (args.repo, meta.get('cython', False))
        if key not in _PROGRAMS:
            _PROGRAMS[key] = frontend.Program(
                args.repo, need_cython=meta.get('cython', False))
        program = _PROGRAMS[key]
        result = report.Result(pid, args.tier)
        only = None
        if args.replay:
            import json
            with open(args.replay) as f:
                only = json.load(f)['finding']['key']
        errors = []
        for rule in meta['rules']:
            name = getattr(rule, 'NAME', rule.__name__)
            result.rules_run.append(name)
            try:
                with _time_limit(RULE_SECONDS, name):
                    rule(program, result)
            except frontend.AnalysisError as e:
                # one rule out of reach must not hide what the other
                # rules found
                errors.append(f'{name}: {e}')
            except Exception as e:
                tb = traceback.extract_tb(e.__traceback__)[-1]
                errors.append(
                    f'{name}: internal error {type(e).__name__}: {e} '
                    f'({os.path.basename(tb.filename)}:{tb.lineno})')
        result.counters['analysis_errors'] = errors
        if only is not None:
            result.findings = [
                f for f in result.findings if f.key == only]
            if not result.findings:
                print(f'replay: finding {only} no longer present')
        st_ok = True
        if args.tier == 'thorough' and not args.no_selftest \
                and not args.replay:
            from . import selftest
            st_ok, summary = selftest.run(pid, args.repo)
            result.counters['selftest'] = summary
        rc = report.finish(result, program, seed)
        for e in errors:
            print(f'ANALYSIS-ERROR property={pid}: {e}')
        if errors and rc == 0:
            return 2
        if not st_ok:
            print(f'SELFTEST-FAIL property={pid}')
            return 2
        return rc
    except frontend.AnalysisError as e:
        print(f'ANALYSIS-ERROR property={pid}: {e}')
        return 2
    except Exception:
        traceback.print_exc()
        print(f'ANALYSIS-ERROR property={pid}: internal error in the '
              'checker (see traceback)')
        return 2


if __name__ == '__main__':
    sys.exit(main())
