"""Receiver resolution and call graph over the Python units.

Callees are resolved, not matched by name (DESIGN.md section 3):

- `self.m`           -> method `m` of the enclosing class or of its base
                        `dd._abc.BDD` / `dd._abc.Operator`
- `self.<attr>.m`    -> through the attribute-type table below
- `<param>.m`        -> by the parameter's annotation or by the name table
- `<alias>.f`        -> function `f` of the aliased module
- `f`                -> nested function, function of the same module, or a
                        class of the same module (constructor)

A call that cannot be resolved is kept with callee `None` and counted.
"""
import ast

from . import astutil as au

MODULE_ALIASES = {
    '_bdd': 'dd.bdd', '_copy': 'dd._copy', '_parser': 'dd._parser',
    '_utils': 'dd._utils', '_abc_dd': 'dd._abc', '_mdd': 'dd.mdd',
}
# (class, attribute) -> class of the attribute's value
ATTR_TYPES = {
    ('dd.autoref.BDD', '_bdd'): 'dd.bdd.BDD',
    ('dd.autoref.Function', 'manager'): 'dd.bdd.BDD',
    ('dd.autoref.Function', 'bdd'): 'dd.autoref.BDD',
    ('dd._parser._Translator', '_bdd'): 'dd.bdd.BDD',
    ('dd.bdd._ReorderingContext', 'bdd'): 'dd.bdd.BDD',
}
BASES = {
    'dd.bdd.BDD': ['dd._abc.BDD'],
    'dd.autoref.BDD': ['dd._abc.BDD'],
    'dd.autoref.Function': ['dd._abc.Operator'],
    'dd._parser._Translator': ['dd._parser.Parser'],
}
# parameter / local names with a conventional type, per module
NAME_TYPES = {
    'dd.bdd': {'bdd': 'dd.bdd.BDD', 'from_bdd': 'dd.bdd.BDD',
               'to_bdd': 'dd.bdd.BDD', 'old_bdd': 'dd.bdd.BDD',
               'other': 'dd.bdd.BDD'},
    'dd.autoref': {'bdd': 'dd.autoref.BDD', 'other': 'dd.autoref.BDD',
                   'target': 'dd.autoref.BDD', 'source': 'dd.autoref.BDD',
                   'manager': 'dd.bdd.BDD', 'trans': 'dd.autoref.Function',
                   'u': 'dd.autoref.Function',
                   'f': 'dd.autoref.Function'},
    # dd._copy works through the public interface; its receivers are the
    # dd.autoref classes whenever it is reached from dd.autoref
    'dd._copy': {'bdd': 'dd.autoref.BDD', 'target': 'dd.autoref.BDD',
                 'source': 'dd.autoref.BDD', 'u': 'dd.autoref.Function',
                 'root': 'dd.autoref.Function'},
    'dd.mdd': {'bdd': 'dd.bdd.BDD', 'mdd': 'dd.mdd.MDD'},
    'dd.dddmp': {'bdd': 'dd.bdd.BDD'},
    'dd._parser': {'translator': 'dd._parser._Translator'},
}


class Edge:
    __slots__ = ('caller', 'callee', 'call', 'recv_type')

    def __init__(self, caller, callee, call, recv_type=None):
        self.caller = caller
        self.callee = callee
        self.call = call
        self.recv_type = recv_type


class CallGraph:
    def __init__(self, program, modules=None):
        self.P = program
        self.modules = modules or [
            'dd.bdd', 'dd.autoref', 'dd._copy', 'dd._parser', 'dd._utils',
            'dd.mdd', 'dd.dddmp', 'dd._abc']
        self.out = dict()
        self.resolved = 0
        self.unresolved = 0
        self.external = 0
        for f in program.all_funcs(set(self.modules)):
            self.out[f.qualname] = self._edges(f)

    # ---- lookup helpers
    def method(self, cls, name):
        """Qualified name of method `name` of class `cls` (MRO by table)."""
        todo = [cls]
        seen = set()
        while todo:
            c = todo.pop(0)
            if c in seen:
                continue
            seen.add(c)
            q = f'{c}.{name}'
            if self.P.func(q, required=False) is not None:
                return q
            todo.extend(BASES.get(c, []))
        return None

    def class_of(self, f):
        if f.cls is None:
            return None
        # qualname = module.Class.method[.nested]
        mod = f.unit.modname
        return f'{mod}.{f.cls}'

    def type_of(self, f, expr, local_types):
        """Class (qualified) of the value of `expr` inside function f."""
        mod = f.unit.modname
        if isinstance(expr, ast.Name):
            if expr.id == 'self' and f.cls:
                return self.class_of(f)
            if expr.id in local_types:
                return local_types[expr.id]
            return NAME_TYPES.get(mod, {}).get(expr.id)
        if isinstance(expr, ast.Attribute):
            base = self.type_of(f, expr.value, local_types)
            if base is not None:
                t = ATTR_TYPES.get((base, expr.attr))
                if t:
                    return t
                if expr.attr == '_bdd':
                    return 'dd.bdd.BDD'
            else:
                if expr.attr == '_bdd':
                    return 'dd.bdd.BDD'
                if expr.attr == 'manager':
                    return 'dd.bdd.BDD'
                if expr.attr == 'bdd' and mod in ('dd.autoref', 'dd._copy'):
                    return 'dd.autoref.BDD'
            return None
        if isinstance(expr, ast.Call):
            q = self.resolve_callee(f, expr, local_types)
            if q and self.is_class(q):
                return q
        return None

    def is_class(self, q):
        mod, _, name = q.rpartition('.')
        u = self.P.units.get(mod)
        return u is not None and name in u.classes

    def annotation_type(self, f, ann):
        if ann is None:
            return None
        text = au.src(ann).strip('\'"')
        mod = f.unit.modname
        if text in ('BDD',):
            return f'{mod}.BDD' if mod in ('dd.bdd', 'dd.autoref') else None
        if text in ('Function', '_Ref') and mod == 'dd.autoref':
            return 'dd.autoref.Function'
        return None

    def resolve_callee(self, f, call, local_types):
        fn = call.func
        mod = f.unit.modname
        if isinstance(fn, ast.Name):
            # nested function of the enclosing function(s)
            q = f.qualname
            while q.count('.') >= 2:
                cand = f'{q}.{fn.id}'
                # class bodies are not enclosing scopes for name lookup
                if self.P.func(q, required=False) and self.P.func(
                        cand, required=False):
                    return cand
                q = q.rsplit('.', 1)[0]
            cand = f'{mod}.{fn.id}'
            if self.P.func(cand, required=False):
                return cand
            u = self.P.units[mod]
            if fn.id in u.classes:
                return cand
            return None
        if isinstance(fn, ast.Attribute):
            ch = au.chain(fn.value)
            if ch and len(ch) == 1 and ch[0] in MODULE_ALIASES:
                m = MODULE_ALIASES[ch[0]]
                cand = f'{m}.{fn.attr}'
                if self.P.func(cand, required=False):
                    return cand
                if m in self.P.units and fn.attr in self.P.units[m].classes:
                    return cand
                return None
            if ch and ch[:1] == ['dd'] and '.'.join(ch) in self.P.units:
                cand = f"{'.'.join(ch)}.{fn.attr}"
                if self.P.func(cand, required=False):
                    return cand
                return None
            t = self.type_of(f, fn.value, local_types)
            if t is not None:
                return self.method(t, fn.attr)
            # super().m(...)
            if isinstance(fn.value, ast.Call) and au.is_name(
                    fn.value.func, 'super') and f.cls:
                for b in BASES.get(self.class_of(f), []):
                    m = self.method(b, fn.attr)
                    if m:
                        return m
        return None

    def _edges(self, f):
        local_types = dict()
        a = f.node.args
        for p in a.posonlyargs + a.args + a.kwonlyargs:
            t = self.annotation_type(f, p.annotation)
            if t:
                local_types[p.arg] = t
        # locals assigned from constructors
        for n in au.walk_no_defs(f.node):
            if isinstance(n, ast.Assign) and len(n.targets) == 1 and \
                    isinstance(n.targets[0], ast.Name) and isinstance(
                        n.value, ast.Call):
                q = self.resolve_callee(f, n.value, local_types)
                if q and self.is_class(q):
                    local_types[n.targets[0].id] = q
        edges = []
        for c in au.calls_in(f.node):
            q = self.resolve_callee(f, c, local_types)
            rt = None
            if isinstance(c.func, ast.Attribute):
                rt = self.type_of(f, c.func.value, local_types)
            if q is not None:
                if self.is_class(q):
                    init = f'{q}.__init__'
                    if self.P.func(init, required=False):
                        edges.append(Edge(f.qualname, init, c, q))
                    self.resolved += 1
                    continue
                self.resolved += 1
                edges.append(Edge(f.qualname, q, c, rt))
            else:
                name = au.call_name(c)
                if self.is_external(c, name):
                    self.external += 1
                else:
                    self.unresolved += 1
                    edges.append(Edge(f.qualname, None, c, rt))
        # nested functions are part of their parent for reachability
        for n in au.walk_no_defs(f.node):
            if isinstance(n, ast.FunctionDef) and n is not f.node:
                q = f'{f.qualname}.{n.name}'
                if q in self.P.units[f.unit.modname].funcs:
                    edges.append(Edge(f.qualname, q, None, None))
        return edges

    BUILTINS = {
        'len', 'abs', 'min', 'max', 'set', 'dict', 'list', 'tuple', 'map',
        'filter', 'sorted', 'iter', 'next', 'isinstance', 'int', 'str',
        'bool', 'range', 'enumerate', 'zip', 'any', 'all', 'hasattr',
        'getattr', 'open', 'bin', 'reversed', 'print', 'super', 'type',
        'ValueError', 'TypeError', 'AssertionError', 'RuntimeError',
        'NotImplementedError', 'Exception', 'DeprecationWarning',
        '_NeedsReordering', 'repr', 'sum', 'id', 'frozenset', 'format',
        'KeyError', 'vars', 'setattr', 'callable', 'float', 'round'}

    def is_external(self, call, name):
        fn = call.func
        if isinstance(fn, ast.Name):
            return fn.id in self.BUILTINS
        ch = au.chain(fn)
        if ch and ch[0] in ('logger', 'log', 'logging', 'warnings', 'pickle',
                            'json', 'os', 'shutil', 'shelve', 'sys', '_ft',
                            '_ty', 'inspect', '_pp', 'astutils', 'ply',
                            '_itr', '_nx', 'collections', '_abc', '_ctx',
                            'subprocess', 'textwrap', 'time', 'math'):
            return True
        # methods of builtin containers / strings
        if isinstance(fn, ast.Attribute) and fn.attr in (
                'get', 'items', 'values', 'keys', 'pop', 'add', 'append',
                'update', 'setdefault', 'remove', 'extend', 'issubset',
                'difference', 'difference_update', 'intersection_update',
                'symmetric_difference', 'format', 'join', 'lower',
                'endswith', 'rstrip', 'lstrip', 'zfill', 'split', 'count',
                'write', 'read', 'startswith', 'strip', 'copy', 'clear',
                'popitem', 'index', 'sort', 'insert', 'discard', 'union',
                'intersection', 'isdigit', 'replace', 'encode', 'upper',
                'input', 'token', 'restart', 'parse', 'warning', 'info',
                'debug', 'getEffectiveLevel', 'dump', 'load', 'getLogger',
                'add_node', 'add_edge', 'starmap', 'lex', 'yacc'):
            return True
        return False

    def stats(self):
        return dict(resolved=self.resolved, unresolved=self.unresolved,
                    external=self.external)
