"""Which functions stand behind which property: reachability in the
resolved call graph from the public entry points the property speaks about.
Used by the hygiene rules (R-FALSY, R-ENUM, R-CACHE, ...) to report a
construct under every property whose behaviour it can change."""
from .callgraph import CallGraph
from .frontend import AnalysisError

ENTRY = {
    'C01': ['dd.bdd.BDD.apply', 'dd.bdd.BDD.ite', 'dd.autoref.BDD.apply',
            'dd.autoref.BDD.ite', 'dd.autoref.Function._apply',
            'dd.autoref.Function.__le__', 'dd.autoref.Function.__lt__',
            'dd.autoref.Function.__eq__', 'dd.autoref.Function.__ne__',
            'dd.autoref.Function.__invert__'],
    'C02': ['dd.bdd.BDD.find_or_add', 'dd.bdd.BDD.swap',
            'dd.bdd.BDD.undeclare_vars', 'dd.bdd.BDD.add_var',
            'dd.bdd.BDD._init_terminal', 'dd.bdd.BDD.collect_garbage',
            'dd.bdd.BDD.ite', 'dd.bdd.BDD.__copy__',
            'dd.bdd.BDD.reduction'],
    'C03': ['dd.bdd.BDD.quantify', 'dd.bdd.BDD.forall', 'dd.bdd.BDD.exist',
            'dd.bdd.BDD.apply', 'dd.autoref.BDD.quantify',
            'dd.autoref.BDD.forall', 'dd.autoref.BDD.exist'],
    'C04': ['dd.bdd.BDD.let', 'dd.autoref.BDD.let', 'dd.bdd.BDD.cofactor',
            'dd.bdd.BDD.compose', 'dd.bdd.BDD.rename'],
    'C05': ['dd.bdd.BDD.add_expr', 'dd.bdd.BDD.to_expr',
            'dd.autoref.BDD.add_expr', 'dd.autoref.BDD.to_expr',
            'dd._parser.add_expr', 'dd._parser._Translator.parse',
            'dd._parser._Translator._apply',
            'dd._parser._Translator._add_int',
            'dd._parser._Translator._add_bool',
            'dd._parser._Translator._add_var', 'dd.bdd.BDD._add_int'],
    'C06': ['dd.bdd.BDD.collect_garbage', 'dd.bdd.BDD.incref',
            'dd.bdd.BDD.decref', 'dd.bdd.BDD.find_or_add',
            'dd.bdd.BDD.swap'],
    'C07': ['dd.bdd.BDD.swap', 'dd.bdd.reorder', 'dd.bdd.reorder_to_pairs',
            'dd.autoref.BDD.reorder', 'dd.autoref.reorder'],
    'C08': ['dd.autoref.Function.__init__', 'dd.autoref.Function.__del__',
            'dd.autoref.Function.__copy__', 'dd.autoref.BDD._wrap',
            'dd.autoref.BDD.succ', 'dd.autoref.Function.low',
            'dd.autoref.Function.high', 'dd.autoref.BDD.let',
            'dd.autoref.BDD.copy', 'dd.autoref.BDD.load',
            'dd.autoref.BDD.collect_garbage', 'dd.bdd.BDD.__del__'],
    'C09': ['dd.bdd._try_to_reorder._wrapper',
            'dd.bdd._ReorderingContext.__exit__',
            'dd.bdd._request_reordering', 'dd.bdd.BDD.configure',
            'dd._copy.load_json', 'dd._copy.copy_bdd', 'dd.autoref.BDD.var',
            'dd.autoref.BDD.cube'],
    'C10': ['dd.bdd.BDD.count', 'dd.bdd.BDD.pick_iter', 'dd._abc.BDD.pick',
            'dd.bdd.BDD.support', 'dd.bdd.BDD.is_essential',
            'dd.autoref.BDD.count', 'dd.autoref.BDD.pick_iter',
            'dd.autoref.BDD.support'],
    'C11': ['dd.bdd.BDD.copy', 'dd.bdd.copy_bdd', 'dd._copy.copy_bdd',
            'dd._copy.copy_bdds_from', 'dd._copy.copy_vars',
            'dd.autoref.BDD.copy', 'dd.autoref.copy_bdd',
            'dd.autoref.copy_vars'],
    'C12': ['dd.bdd.BDD.dump', 'dd.bdd.BDD.load', 'dd.bdd.BDD._dump_manager',
            'dd.bdd.BDD._load_manager', 'dd.autoref.BDD.dump',
            'dd.autoref.BDD.load', 'dd._copy.dump_json',
            'dd._copy.load_json'],
    'C13': ['dd.bdd.image', 'dd.bdd.preimage', 'dd.autoref.image',
            'dd.autoref.preimage'],
    'C14': ['dd.bdd.BDD.add_var', 'dd.bdd.BDD.declare',
            'dd.bdd.BDD.undeclare_vars', 'dd.bdd.BDD.var_at_level',
            'dd.bdd.BDD.level_of_var', 'dd.bdd.BDD.var_levels',
            'dd.autoref.BDD.add_var', 'dd.autoref.BDD.declare',
            'dd.autoref.BDD.var_levels'],
    'C15': ['dd.mdd.bdd_to_mdd', 'dd.mdd.MDD.ite', 'dd.mdd.MDD.apply',
            'dd.mdd.MDD.find_or_add', 'dd.mdd.MDD.collect_garbage'],
    'C16': ['dd.dddmp.load'],
    'C17': ['dd.bdd.BDD.find_or_add', 'dd.bdd.BDD.apply',
            'dd.bdd.BDD.cofactor', 'dd.bdd.BDD.swap',
            'dd.bdd.BDD.undeclare_vars', 'dd.bdd.BDD.add_var',
            'dd._parser._Translator.parse', 'dd._copy.load_json'],
    # the Python code that the C wrappers run through
    'C19': ['dd._utils.assert_operator_arity', 'dd._copy.load_json',
            'dd._copy.dump_json', 'dd._copy.copy_bdd',
            'dd._parser.add_expr'],
    'C18': ['dd.autoref.Function.low', 'dd.autoref.Function.high',
            'dd.autoref.Function.var', 'dd.autoref.Function.level',
            'dd.autoref.Function.negated', 'dd.autoref.BDD.succ',
            'dd.bdd.BDD.succ', 'dd.bdd.BDD.descendants', 'dd.bdd.to_nx',
            'dd.bdd._to_dot', 'dd.autoref.Function.__len__',
            'dd.bdd.BDD.__len__'],
}


# Function-level spellings of the operations (methods that
# dd.autoref.Function inherits from dd._abc.Operator)
OPERATOR = {
    'C01': ['__and__', '__or__', 'implies', 'equiv', '__invert__',
            '__eq__', '__ne__', '__le__', '__lt__'],
    'C03': ['exist', 'forall'],
    'C04': ['let'],
    'C05': ['to_expr'],
    'C10': ['count', 'pick', 'support'],
    'C18': ['level', 'var', 'low', 'high', 'negated', '__len__'],
}
for _pid, _names in OPERATOR.items():
    ENTRY[_pid] = ENTRY[_pid] + [f'dd._abc.Operator.{n}' for n in _names]

# A property that quantifies over variable orders ("configurations") or
# over sequences of operations ("histories") depends on the functions that
# set up an order, and on those that make up a history, whatever else it
# speaks about: they are added to its entry points.  (Read from
# properties.jsonl; the file is given and fixed.)
CONFIGURATION = [
    'dd.bdd.BDD.__init__', 'dd.bdd.BDD.add_var', 'dd.bdd.BDD.declare',
    'dd.bdd.BDD.swap', 'dd.bdd.reorder', 'dd.bdd.BDD.var_levels',
    'dd.bdd.BDD.var_at_level', 'dd.bdd.BDD.level_of_var',
    'dd.autoref.BDD.__init__', 'dd.autoref.BDD.add_var',
    'dd.autoref.BDD.declare', 'dd.autoref.BDD.var_levels',
    'dd.autoref.BDD.reorder', 'dd.autoref.reorder',
    # (removing variables renumbers the levels of those that stay)
    'dd.bdd.BDD.undeclare_vars',
]
HISTORY = [
    'dd.bdd.BDD.collect_garbage', 'dd.bdd.BDD.incref', 'dd.bdd.BDD.decref',
    'dd.bdd.BDD.__copy__', 'dd.bdd.BDD.undeclare_vars',
    'dd.bdd.BDD.find_or_add', 'dd.autoref.BDD.collect_garbage',
    'dd.autoref.Function.__init__', 'dd.autoref.Function.__del__',
    'dd.autoref.Function.__copy__',
]


def _quantifiers():
    import json
    import os
    out = dict()
    here = os.path.dirname(os.path.dirname(os.path.abspath(__file__)))
    with open(os.path.join(here, 'properties.jsonl')) as f:
        for line in f:
            line = line.strip()
            if line:
                d = json.loads(line)
                out[d['id']] = set(d.get('quantifier', {}).get('over', []))
    return out


for _pid, _over in _quantifiers().items():
    if _pid not in ENTRY:
        continue
    extra = []
    if _over & {'configurations', 'histories'}:
        extra += CONFIGURATION
    if 'histories' in _over:
        extra += HISTORY
    ENTRY[_pid] = ENTRY[_pid] + [q for q in extra if q not in ENTRY[_pid]]


# properties that quantify over histories ONLY speak about every operation
ALL_OPERATIONS = {pid for pid, over in _quantifiers().items()
                  if over == {'histories'}}
# C09 says so itself: "every public operation of dd.autoref (and of dd.bdd
# when its operands are referenced)"
ALL_OPERATIONS.add('C09')
# C02: "whichever way they were built" - every operation builds references
ALL_OPERATIONS.add('C02')


# C19 is about the C wrappers: of the pure-Python package only the shared
# helper modules are on their paths (the managers dd.bdd / dd.autoref /
# dd.mdd are what the wrappers stand in for), plus the one function whose
# operator table is the reference for theirs
MODULE_FILTER = {
    'C19': (('dd._copy', 'dd._utils', 'dd._parser', 'dd._abc'),
            # ... and what that table dispatches to: the back ends are
            # compared with the meaning these give to each operator
            ('dd.bdd.BDD.apply', 'dd.bdd.BDD.ite', 'dd.bdd.BDD._ite',
             'dd.bdd.BDD.quantify', 'dd.bdd.BDD._quantify')),
}


def has(P, pid, *quals):
    """Is one of the functions in the scope of the property?"""
    if pid not in ENTRY:
        return False
    funcs = functions_of(P, pid)
    return any(q in funcs for q in quals)


def select(P, pid, table, qual=None):
    """Instances of a rule for `pid`: those listed for it (its own), plus
    the instances listed for other properties whose function lies in the
    scope of `pid`.  -> (own, extra)"""
    if qual is None:
        def qual(it):
            return it if isinstance(it, str) else it[0]
    own = list(table.get(pid, []))
    seen = {repr(x) for x in own}
    extra = []
    funcs = functions_of(P, pid) if pid in ENTRY else set()
    for other in sorted(table):
        for it in table[other]:
            if repr(it) in seen:
                continue
            if qual(it) in funcs:
                extra.append(it)
                seen.add(repr(it))
    return own, extra


def functions_of(P, pid):
    """Qualified names reachable from the entry points of `pid`."""
    cache = P.__dict__.setdefault('_scope_cache', dict())
    if pid in cache:
        return cache[pid]
    if '_graph' not in cache:
        cache['_graph'] = CallGraph(P)
    G = cache['_graph']
    seen = set()
    todo = list(ENTRY.get(pid, []))
    missing = [q for q in todo if P.func(q, required=False) is None]
    if missing:
        raise AnalysisError(
            f'entry point(s) of {pid} not found: {missing}; the scope of '
            'the repository-wide rules cannot be computed')
    if pid in ALL_OPERATIONS:
        # the history alphabet: every public operation of the managers
        for mod, cls in (('dd.bdd', 'BDD'), ('dd.autoref', 'BDD')):
            for f in P.methods(mod, cls):
                if not f.name.startswith('_'):
                    todo.append(f.qualname)
    while todo:
        q = todo.pop()
        if q in seen:
            continue
        seen.add(q)
        f = P.func(q, required=False)
        if f is not None:
            # a decorated function runs inside its decorator's wrapper
            mod = q.split('.')[0] + '.' + q.split('.')[1]
            for d in f.decorators:
                w = f'{mod}.{d}._wrapper'
                if P.func(w, required=False) is not None and \
                        w not in seen:
                    todo.append(w)
        for e in G.out.get(q, []):
            if e.callee and e.callee not in seen:
                todo.append(e.callee)
    if pid in MODULE_FILTER:
        mods, also = MODULE_FILTER[pid]
        seen = {q for q in seen
                if any(q.startswith(m + '.') for m in mods)} | {
                    q for q in also if P.func(q, required=False)}
    cache[pid] = seen
    return seen
