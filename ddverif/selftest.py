"""Self-validation of the checkers (thorough tier, DESIGN.md section 7).

Each variant is a small edit of the repository source, applied to a scratch
copy outside /repo and /verif (never to /repo itself):

- a *breaking* variant violates a decided clause; the check must report a
  violation whose key contains the expected fragment;
- a *benign* variant preserves behaviour; the check must report nothing
  that it does not also report on the unedited tree.

The edits are text replacements that must match exactly once; a variant
whose anchor text no longer exists is reported as `stale` (it neither
passes nor fails).  Variants are only compiled (`compile()` / Cython
parse), never executed.
"""
import concurrent.futures
import os
import shutil
import tempfile

from . import frontend, props, report


FILES = (
    [f'dd/{m}.py' for m in frontend.PY_UNITS]
    + [f'dd/{m}.pyx' for m in frontend.CY_UNITS]
    + [f'dd/{m}.pxd' for m in frontend.PXD_UNITS]
    + ['doc.md'])


_PROGRAMS = dict()   # parsed trees of this process (scratch copies are
                     # never edited after they were parsed)


def analyse(pid, repo, only_rules=None):
    """Run the rules of `pid` on `repo`; return the `Result`."""
    meta = props.PROPS[pid]
    key = (os.path.abspath(repo), meta.get('cython', False))
    if key not in _PROGRAMS:
        if len(_PROGRAMS) > 4:
            _PROGRAMS.clear()
        _PROGRAMS[key] = frontend.Program(
            repo, need_cython=meta.get('cython', False))
    program = _PROGRAMS[key]
    result = report.Result(pid, 'quick')
    import io
    import contextlib
    buf = io.StringIO()
    errors = []
    with contextlib.redirect_stdout(buf):
        for rule in meta['rules']:
            try:
                rule(program, result)
            except frontend.AnalysisError as e:
                errors.append(str(e))
    if errors and not result.findings:
        raise frontend.AnalysisError('; '.join(errors))
    return result


def make_copy(repo, edits, patch=None):
    """Scratch copy of the analysed files with `edits` applied.

    `edits` = list of (relpath, old, new).  Returns (dir, problem).
    """
    d = tempfile.mkdtemp(prefix='ddverif-variant-')
    os.makedirs(os.path.join(d, 'dd'))
    for rel in FILES:
        src = os.path.join(repo, rel)
        if os.path.exists(src):
            shutil.copy(src, os.path.join(d, rel))
    if patch:
        import subprocess
        r = subprocess.run(['patch', '-p1', '-s', '-i', patch], cwd=d,
                           stdout=subprocess.PIPE, stderr=subprocess.STDOUT,
                           text=True)
        if r.returncode:
            return d, f'patch does not apply: {r.stdout[:120]}'
    for rel, old, new in edits:
        p = os.path.join(d, rel)
        with open(p, encoding='utf8') as f:
            text = f.read()
        n = text.count(old)
        if n != 1:
            return d, f'anchor text occurs {n} times in {rel}'
        text = text.replace(old, new)
        with open(p, 'w', encoding='utf8') as f:
            f.write(text)
        if rel.endswith('.py'):
            try:
                compile(text, rel, 'exec')
            except SyntaxError as e:
                return d, f'variant does not compile: {e}'
    return d, None


def run_variant(args):
    pid, repo, variant, base_keys = args
    d = None
    try:
        d, problem = make_copy(repo, variant['edits'],
                               variant.get('patch'))
        if problem:
            return dict(id=variant['id'], status='stale', detail=problem)
        try:
            res = analyse(pid, d)
        except frontend.AnalysisError as e:
            if variant['kind'] == 'documented-miss':
                return dict(id=variant['id'], status='miss',
                            detail=f'documented miss (analysis error: {e})')
            if variant.get('tolerate_analysis_error'):
                return dict(id=variant['id'], status='ok',
                            detail=f'not analysable: {e}')
            if variant['kind'] == 'breaking' and variant.get(
                    'expect') == 'ANALYSIS-ERROR':
                return dict(id=variant['id'], status='ok',
                            detail=f'analysis error: {e}')
            return dict(id=variant['id'], status='fail',
                        detail=f'analysis error: {e}')
        keys = [f.key for f in res.findings if f.key not in base_keys]
        if variant['kind'] == 'documented-miss':
            return dict(id=variant['id'], status='miss' if not keys
                        else 'ok', detail='documented miss' if not keys
                        else f'now caught: {keys[0]}')
        if variant['kind'] == 'breaking':
            want = variant['expect']
            hit = [k for k in keys if want in k]
            if hit:
                return dict(id=variant['id'], status='ok', detail=hit[0])
            return dict(
                id=variant['id'], status='fail',
                detail=f'missed: expected a finding containing {want!r}, '
                       f'got {keys}')
        else:
            und = [i for i in res.instances if i['verdict'] == 'undecided']
            if keys:
                return dict(id=variant['id'], status='fail',
                            detail=f'false alarm on a benign edit: {keys}')
            return dict(id=variant['id'], status='ok',
                        detail=f'silent ({len(und)} undecided)')
    except Exception as e:
        import traceback
        return dict(id=variant['id'], status='fail',
                    detail=f'{type(e).__name__}: {e}\n'
                           + traceback.format_exc())
    finally:
        if d is not None:
            shutil.rmtree(d, ignore_errors=True)


def seeded_variants(pid):
    """Confirmed changes written by independent sub-agents
    (/verif/seeded/*): the check of the property they aim at must report
    something on the patched tree."""
    import glob
    import json
    out = []
    root = os.path.join(report.HERE, 'seeded')
    for d in sorted(glob.glob(os.path.join(root, '*'))):
        mp = os.path.join(d, 'meta.json')
        pp = os.path.join(d, 'patch.diff')
        if not (os.path.exists(mp) and os.path.exists(pp)):
            continue
        meta = json.load(open(mp))
        if meta.get('property') != pid or meta.get('obsolete'):
            continue
        # a change that the check of its property is not recorded (by
        # tools/seeded.py recheck) as catching is a documented miss: it is
        # reported, never counted as caught, and does not fail the run
        kind = 'breaking' if pid in meta.get(
            'detected_by', {}) else 'documented-miss'
        out.append(dict(id='seeded/' + os.path.basename(d), props=[pid],
                        kind=kind, edits=[], patch=pp, expect='',
                        note=meta.get('needs', '')))
    return out


def benign_variants(pid):
    """Behaviour-preserving refactorings written by independent
    sub-agents (/verif/benign/*): every check must stay silent on them."""
    import glob
    out = []
    root = os.path.join(report.HERE, 'benign')
    for d in sorted(glob.glob(os.path.join(root, '*'))):
        pp = os.path.join(d, 'patch.diff')
        if not (os.path.exists(pp) and os.path.exists(
                os.path.join(d, 'meta.json'))):
            continue
        out.append(dict(id='benign/' + os.path.basename(d), props=[pid],
                        kind='benign', edits=[], patch=pp, expect=None,
                        note='refactoring by a sub-agent',
                        tolerate_analysis_error=True))
    return out


def run(pid, repo, verbose=True, jobs=16):
    from . import variants
    # breaking variants: those aimed at this property; benign variants:
    # all of them (a behaviour-preserving edit must leave every check
    # silent, wherever it is)
    cy = props.PROPS[pid].get('cython', False)
    vs = [v for v in variants.VARIANTS
          if pid in v['props'] or (v['kind'] == 'benign' and not cy)]
    vs = vs + seeded_variants(pid)
    if not cy:
        vs = vs + benign_variants(pid)
    if not vs:
        print(f'selftest {pid}: no variants')
        return True, dict(variants=0)
    # the small-model interpreter against CPython on its own snippets
    from . import interp_selftest
    n_snip, disagree = interp_selftest.run()
    for k, body, want, got in disagree:
        print(f'selftest {pid} interpreter snippet {k}: CPython {want}, '
              f'interpreter {got}')
    base = analyse(pid, repo)
    base_keys = {f.key for f in base.findings}
    work = [(pid, repo, v, base_keys) for v in vs]
    with concurrent.futures.ProcessPoolExecutor(
            max_workers=min(jobs, len(work))) as ex:
        results = list(ex.map(run_variant, work))
    ok = not disagree
    n = dict(ok=0, fail=0, stale=0, miss=0)
    for r in results:
        n[r['status']] += 1
        if r['status'] == 'fail':
            ok = False
        if verbose and r['status'] != 'ok':
            print(f"selftest {pid} {r['id']}: {r['status']}: {r['detail']}")
    nb = sum(1 for v in vs if v['kind'] != 'benign')
    ns = sum(1 for v in vs if v.get('patch') and v['kind'] != 'benign')
    nr = sum(1 for v in vs if v.get('patch') and v['kind'] == 'benign')
    print(f'selftest {pid}: {len(vs)} variants ({nb} breaking of which '
          f'{ns} seeded by sub-agents, {len(vs) - nb} benign of which '
          f'{nr} refactorings by sub-agents): '
          f'{n["ok"]} ok, {n["fail"]} failed, {n["stale"]} stale, '
          f'{n["miss"]} documented miss(es)')
    summary = dict(
        interpreter_snippets=n_snip,
        interpreter_disagreements=len(disagree),
        variants=len(vs), breaking=nb, seeded=ns, benign=len(vs) - nb,
        refactorings_by_sub_agents=nr,
        ok=n['ok'],
        failed=n['fail'], stale=n['stale'], documented_misses=[
            r['id'] for r in results if r['status'] == 'miss'],
        detected=[r['id'] for r, v in zip(results, vs)
                  if v['kind'] == 'breaking' and r['status'] == 'ok'],
        silent_on=[r['id'] for r, v in zip(results, vs)
                   if v['kind'] == 'benign' and r['status'] == 'ok'])
    return ok, summary
