"""Static-analysis machinery for the dd properties (see /verif/DESIGN.md)."""
