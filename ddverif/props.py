"""Property id -> rules, and the texts that go to MANIFEST / evidence."""
from .rules import (
    models, optab, sign, role, memo, state, reord, handles, raw, domain, formats,
    grammar, cyts, misc, hygiene, bounds, dtypes, attribution)

PROPS = dict()
NOT_BUILT = dict()

GENERIC = (
    'Exhaustive static check of named necessary conditions of the '
    'property over all sites and paths of the current source (nothing of '
    'the package is imported or run; where models are named, single '
    'functions are interpreted over every state of a small model by the '
    'checker\'s own evaluator of the syntax tree): ')


HYGIENE = [hygiene.r_falsy, hygiene.r_enum, hygiene.r_cache,
           hygiene.r_alias, hygiene.r_term, hygiene.r_lossy,
           hygiene.r_shared, hygiene.r_loopflag, misc.r_oneshot,
           hygiene.r_argmut, hygiene.r_identity, hygiene.r_classstate,
           hygiene.r_owned, hygiene.r_unused, hygiene.r_signblind,
           hygiene.r_zip, hygiene.r_attrs, bounds.r_nonempty,
           hygiene.r_unbound]
HYGIENE_TEXT = (
    ' Repository conventions over every function reachable from the '
    'property\'s entry points: optional arguments, lookup results and '
    'levels never tested by truthiness; dictionary position never used as '
    'level; nothing memoised across changes of the manager; no accessor '
    'returns a manager table or shares one between managers; terminal '
    'shortcuts keep the sign; no equality by hash, no flag tested by '
    'identity with True/False, no signed references filed under abs(); flags '
    'that decide an early exit after a loop accumulate over it; an '
    'Iterable argument is traversed at most once on every path; public '
    'and retried operations do not edit their container arguments; no '
    'identity test on values; no mutable class-level state written '
    'through self; no table bound to an argument; no parameter '
    'accepted and ignored; no equality of references modulo complement, '
    'no references counted as nodes; zip() pairs its arguments as '
    'given; attributes assigned through self are declared; min()/max() '
    'of a loop-filled result is non-empty in every small model; nothing '
    'assigned only inside a loop is read after it.')


ATTR_TEXT = (
    ' Findings of the rules of the other properties that lie in a function '
    'reachable from this property\'s entry points are reported here too.')


def prop(pid, rules, decides, not_decided, technique, cython=False):
    from . import scope
    if pid in scope.ENTRY:
        rules = list(rules) + HYGIENE + [attribution.r_attributed]
        decides = decides + HYGIENE_TEXT + ATTR_TEXT
    PROPS[pid] = dict(
        rules=rules, explanation=GENERIC + decides,
        not_decided=not_decided, technique=technique, cython=cython)


prop('C01', [
    optab.r_vocab,
    optab.r_apply_validates([('dd.bdd', 'BDD')]),
    optab.r_optab_bdd,
    optab.r_ite_terminals,
    optab.r_optab_functions({'dd.autoref'}),
    sign.r_sign,
    role.r_role,
    memo.r_memo,
    memo.r_inval,
    state.r_norm,
    optab.r_ite_rewrites,
    models.r_operations,
    models.r_autoref_apply,
],
    'every operator alias of dd._abc is interpreted through BDD.apply over '
    'the Boolean domain and compared with its connective (27 aliases, 8 '
    'valuations each); the arity partition of assert_operator_arity; the '
    'Function operators ~ & | implies equiv <= < == != interpreted the '
    'same way; terminal cases of _ite; sign push-down in _top_cofactor; '
    'cofactor roles and homogeneity of the _ite recursion; key of the '
    'computed table read == written; every function that removes or '
    'rewrites nodes resets the computed table; normal form steps of '
    'find_or_add.',
    'that the ITE recursion as a whole computes the right function for '
    'all operands (inductive argument), warm-cache histories beyond the '
    'invalidation rule.',
    'abstract interpretation of dispatch tables over Booleans; '
    'path-sensitive sign/role dataflow')
prop('C02', [
    sign.r_sign,
    role.r_role,
    state.r_norm,
    state.r_pair,
    state.r_writers,
    state.r_invmap,
    domain.r_domain,
    domain.r_rebuild,
    memo.r_inval,
    bounds.r_accept,
    models.r_operations,
],
    'normal form steps of find_or_add on every path (validation, '
    'complement normalisation, elimination, unique-table lookup, insert '
    'of the looked-up key); writer set of the node tables; _succ/_pred '
    'written in inverse pairs; level argument of every find_or_add call '
    'classified (same node / variable node / min level / mapped with '
    'order-preserving map); sign and roles in reduction.',
    'the "iff" itself (global induction over the node table), '
    'all-orders enumeration.',
    'must-pass-through on find_or_add paths; who-may-write; inverse-map '
    'pairing; level-argument classification')
prop('C03', [
    optab.r_optab_bdd,
    optab.r_quant_wrappers({'dd.bdd', 'dd.autoref'}),
    sign.r_sign,
    role.r_role,
    role.r_conn,
    memo.r_memo,
    misc.r_args,
    reord.r_stale_levels,
    role.r_quant_guard,
    misc.r_quant_vars,
    models.r_operations,
    models.r_autoref_apply,
],
    'complement push-down in _quantify on every path; LOW/HIGH roles into '
    'find_or_add; ite(p, q, -1) under forall / ite(p, 1, q) otherwise are '
    'exactly AND / OR; memo key is the signed reference; the \\A / \\E '
    'branches of apply quantify the second operand over the support of '
    'the first with the right kind; forall/exist wrappers pass the right '
    'constant and operand roles.',
    'correctness of the early exit for every level pattern; the '
    'recursion as a whole.',
    'path-sensitive sign/role dataflow; truth tables of ite encodings')
prop('C04', [
    sign.r_sign,
    role.r_role,
    memo.r_memo,
    domain.r_domain,
    formats.r_dispatch,
    misc.r_args,
    reord.r_let_decorated,
    models.r_operations,
],
    'sign accounting in _cofactor, _compose, _vector_compose, _copy_bdd '
    '(hit and miss paths); a true value selects the HIGH successor in '
    '_cofactor; ite(g, HIGH, LOW) and find_or_add(z, LOW, HIGH); '
    'recursive calls are role-homogeneous; let dispatch tests bool before '
    'int; memo keys cover the varying parameters.',
    'simultaneous-substitution semantics as a whole; arithmetic on '
    'levels.',
    'path-sensitive sign/role dataflow; dispatch-order check')
prop('C05', [
    sign.r_sign,
    role.r_role,
    memo.r_memo,
    grammar.r_grammar,
    optab.r_optab_bdd,
    optab.r_vocab,
    handles.r_parser,
    models.r_to_expr,
    models.r_operator_str,
],
    'the lexer is reconstructed from the source (regex docstrings, PLY '
    'ordering rule) and every spelling of every operator rule and every '
    'spelling of the documented grammar (doc.md) is lexed against it; the '
    'canonical value each token hands to apply is interpreted through '
    'BDD.apply and compared with the connective of the token; the '
    'precedence tuple equals the documented list in order and '
    'associativity and respects the order stated in the property; each '
    'production passes (operator, operands) from the positions of its '
    'symbols; quantifier / renaming operand roles in the translator; '
    'constants, comments, @n references; every fragment emitted by '
    'to_expr lexes to the intended token; printer _to_expr: sign and '
    'roles (ite(var, HIGH, LOW), FALSE/TRUE shortcut).',
    'the LALR automaton PLY builds from the productions.',
    'token/precedence table agreement; path-sensitive dataflow on the '
    'printer')
prop('C06', [
    state.r_pair,
    state.r_invmap,
    state.r_writers,
    memo.r_inval,
    memo.r_memo,
    misc.r_visit,
    bounds.r_accept,
    models.r_collect,
    models.r_reorder_real,
],
    'find_or_add and swap accept exactly the arguments of their contract '
    '(prologue interpreted over small models: no edge to a node that does '
    'not exist); every insert of a node is followed by incref of each child; incref '
    'adds one, decref subtracts one only under the positive-count guard; '
    'every node removed by collect_garbage leaves all three tables, '
    'releases both children and queues those that drop to zero; the work '
    'list is seeded with zero-count nodes only; in swap every rewritten '
    'node releases its old and acquires its new children and the old ones '
    'reach the rooted collection; every function that removes or rewrites '
    'nodes resets the computed table on every exit; no memo outlives a '
    'call; only the confirmed writer set touches the tables.',
    'exact equality of counts over histories (needs the induction over '
    'the node table); re-use of node numbers is covered only through the '
    'invalidation and freshness rules.',
    'pairing / must-follow analysis on enumerated paths; who-may-write')
prop('C07', [
    role.r_role,
    memo.r_inval,
    state.r_pair,
    state.r_invmap,
    state.r_writers,
    raw.r_raw,
    reord.r_live_levels,
    state.r_levelsets,
    models.r_reorder_real,
],
    'swap: old children released and new children acquired for every '
    'rewritten node, candidates handed to the rooted collection, '
    '_succ/_pred rewritten in inverse pairs on all paths of the three '
    'loops, vars/_level_to_var swapped as an inverse pair, computed table '
    'reset, arguments validated before the first write; node identity '
    'kept; helpers keep (level, LOW, HIGH).',
    'the case analysis of swap (which grandchildren go where), monotone '
    'size under sifting, that _sort_to_order reaches the target.',
    'typestate / pairing analysis on the swap loops')
prop('C08', [
    handles.r_handles,
    state.r_writers,
    state.r_pair,
    memo.r_inval,
    models.r_autoref_apply,
    models.r_autoref_siblings,
    models.r_reorder_real,
],
    'Function.__init__ takes exactly one count on every normal path and '
    'none before a rejection; __del__ gives back exactly one, once '
    '(guard and clear); a copy of a handle is built by the acquiring '
    'constructor; no other callable of dd.autoref changes counts except '
    'the two pass-throughs; every return of every dd.autoref callable '
    'whose value derives from a node-returning call on the integer '
    'manager passes through _wrap / Function / _map_container(_wrap); '
    'copies are wrapped by the target manager; the parser only sees the '
    'integer manager; dd.autoref never writes manager tables; the '
    'shutdown check releases the terminal and collects before it looks '
    'for counts.',
    "interplay with Python's finalisation order; exact counts over "
    'histories.',
    'ownership typestate on handle methods; escape analysis of raw node '
    'values over the resolved call graph')
prop('C09', [
    reord.r_reord,
    reord.r_retry,
    handles.r_numbers,
    models.r_json_reordering,
    models.r_configure,
],
    'the retry protocol of _try_to_reorder as a typestate (attempt in '
    'context, requests disabled before reorder(), retry in context, '
    're-armed before returning); _ReorderingContext saves the nesting '
    'flag, restores it first thing on every exit and suppresses only '
    '_NeedsReordering at the outermost level; the request is raised '
    'before find_or_add writes anything and never while disabled; the '
    'nine anchored methods are decorated; from every public name of '
    'dd.bdd, dd.autoref and dd._copy the resolved call graph is searched '
    'for a route to find_or_add that passes no decorated frame.',
    'equality of results with reordering on and off (behavioural).',
    'typestate on the decorator; call-graph reachability over resolved '
    'callees (must-pass-through a decorated frame)')
prop('C10', [
    sign.r_sign,
    role.r_role,
    memo.r_memo,
    misc.r_visit,
],
    'sign accounting in _sat_len (hit and miss) and _sat_iter; False '
    'travels with LOW and True with HIGH in the enumeration.',
    'all arithmetic (2** scaling, level compaction), disjointness and '
    'coverage of the enumeration.',
    'path-sensitive sign/role dataflow')
prop('C11', [
    sign.r_sign,
    role.r_role,
    memo.r_memo,
    domain.r_domain,
    domain.r_rebuild,
    handles.r_wrap_target,
    misc.r_args,
    models.r_copy,
    models.r_manager_copy,
],
    'sign and roles in dd.bdd._copy_bdd and dd._copy._copy_bdd; rebuild '
    'through ite on the target variable.',
    'copies of diagrams over more than three variables.',
    'path-sensitive sign/role/domain dataflow')
prop('C12', [
    sign.r_sign,
    role.r_role,
    memo.r_memo,
    raw.r_temporaries,
    domain.r_domain,
    domain.r_rebuild,
    formats.r_format,
    raw.r_tempdir,
],
    'sign and roles across pickle/JSON writers and readers.',
    'file-system behaviour, shelve.',
    'writer/reader table agreement; path-sensitive dataflow')
prop('C13', [
    sign.r_sign,
    role.r_role,
    role.r_conn,
    memo.r_memo,
    misc.r_args,
    role.r_quant_guard,
    domain.r_rebuild,
    role.r_spaces,
    models.r_operations,
    models.r_autoref_image,
],
    'references of the two operands of _image (different variable '
    'spaces under vmap) are never compared with each other; '
    'nodes are made in _image only as variable nodes (never at the top '
    'level of operands whose variables it renames); cofactor roles and '
    'homogeneity in _image; ite(g, HIGH, LOW); AND/OR '
    'encodings under forall.',
    'the level-shift arithmetic jv + z - iv.',
    'path-sensitive role dataflow; truth tables of ite encodings')
prop('C14', [
    state.r_invmap,
    state.r_writers,
    memo.r_inval,
    raw.r_raw,
    formats.r_bound,
    models.r_declare,
],
    'vars/_level_to_var written as inverse entries and the terminal moved '
    'below each new variable on every path of add_var; undeclare_vars '
    're-derives _pred and _level_to_var as inverses after rebinding, '
    'builds the compaction map by enumerating an ascending range and '
    'resets the computed table; validation precedes the first write; '
    'caller-supplied levels are bounded.',
    'value-level conditions of _check_var.',
    'inverse-map pairing, validation-before-mutation and bound checks on '
    'enumerated paths')
prop('C15', [
    optab.r_optab_mdd,
    optab.r_apply_validates([('dd.mdd', 'MDD')]),
    optab.r_ite_terminals,
    sign.r_sign,
    memo.r_memo,
    memo.r_inval,
    state.r_norm,
    state.r_pair,
    misc.r_mdd_bits,
    models.r_bdd_to_mdd,
    models.r_mdd_collect,
],
    'MDD.apply interpreted per alias against the connectives and against '
    'BDD.apply; terminal cases of MDD.ite; sign in MDD._top_cofactor and '
    'in the edge map of bdd_to_mdd.',
    'conversion of diagrams over more than three bits.',
    'abstract interpretation of dispatch tables; sign dataflow')
prop('C16', [
    sign.r_sign,
    role.r_role,
    domain.r_domain,
    domain.r_rebuild,
    misc.r_dddmp,
    dtypes.r_keys,
],
    'identifier domains (variable / variable ID / permutation ID / rank / '
    'file node / reference) inferred through the dictionary '
    'comprehensions of the loader: every lookup uses a key of the '
    'dictionary\'s key domain, the .varinfo table matches the format, '
    'levels passed to find_or_add are levels of the new manager; '
    'sign of complemented else-edges; THEN/ELSE of the file format reach '
    'find_or_add as HIGH/LOW; only the THEN edge is required regular.',
    'header mode semantics.',
    'format-table role dataflow; identifier-domain taint')
prop('C17', [
    raw.r_raw,
    raw.r_guards,
    bounds.r_accept,
    raw.r_temporaries,
    reord.r_context,
    handles.r_parser,
    raw.r_tempdir,
    models.r_pickle_corrupt,
    models.r_configure,
    models.r_json_reordering,
],
    'on every path of every function of dd.bdd, dd.autoref and dd._copy '
    'that writes manager state, no user-facing rejection (explicit raise '
    'of a non-assertion error, or a call to one of the repository\'s '
    'validators) follows the first write, except for reviewed exemptions; '
    'the argument checks named in the anchors are present and precede '
    'the first use; the prologues of find_or_add and swap, interpreted '
    'over all small models, accept exactly the arguments of their '
    'contract; dd.autoref checks every operand against its manager; '
    'the reordering context restores its flag first thing on every exit; '
    'loader temporaries are released on normal and exceptional exits; '
    'the parser never holds Function objects.',
    'failures injected inside library code (pickle, json, ply); '
    'exceptions raised implicitly (KeyError) inside callees that are not '
    'validators.',
    'validation-before-mutation ordering on enumerated paths; guard '
    'presence; release-in-finally')
prop('C18', [
    sign.r_sign,
    role.r_role,
    misc.r_visit,
    models.r_function_views,
    models.r_autoref_siblings,
    models.r_to_nx,
],
    'low/high accessors return the successor of their name; succ() keeps '
    '(level, LOW, HIGH); to_nx labels value=False on LOW and carries the '
    'complement bit; _to_dot draws LOW dashed, HIGH solid and marks '
    'complemented edges; negated is the sign test.',
    'graph isomorphism of exports.',
    'path-sensitive sign/role dataflow on accessors and exporters')
prop('C19', [
    optab.r_optab_backends,
    # (the pure-Python handle class is the other side of the comparison:
    # its operator methods must have the meaning the wrappers are held to)
    optab.r_optab_functions({'dd.cudd', 'dd.cudd_zdd', 'dd.sylvan',
                             'dd.buddy', 'dd.autoref'}),
    optab.r_quant_wrappers({'dd.cudd', 'dd.cudd_zdd', 'dd.sylvan'}),
    cyts.r_cyts,
    cyts.r_cache_tags,
    cyts.r_loader_release,
    models.r_zdd,
],
    'the apply chain of each C wrapper (parsed with the Cython parser) is '
    'interpreted per alias over Booleans and compared with the '
    'interpretation of dd.bdd.BDD.apply (truth tables; operand roles of '
    'quantifiers using parameter names from c_sylvan.pxd); Function '
    'operator methods likewise; each user of the CUDD computed table '
    'looks up and inserts under one tag of its own and the same '
    'operands.',
    'anything about the C libraries behind the wrappers.',
    'abstract interpretation of Cython dispatch tables; reference '
    'typestate on DdNode locals', cython=True)


# ---------------------------------------------------------------- the models
# Functions interpreted over every state of a small model (rules/models.py,
# DESIGN section 13.2): what they add to the clauses decided, and what they
# leave undecided.  The interpretation is of the syntax tree, function by
# function with callee summaries or callees interpreted the same way;
# nothing of the package is imported or executed.
MODEL_TEXT = {
    'C01': ' Models: `ite` interpreted with all it calls on two managers '
           'over three variables (720 triples) against truth tables, '
           'canonical reference and consistent tables afterwards; '
           '`find_or_add` for every valid request; `autoref.BDD.apply` '
           'against a recording integer manager under five node '
           'numberings; the `Function` operators under five numberings.',
    'C02': ' Models: `find_or_add`, `undeclare_vars`, and the operations '
           '(`ite`, `quantify`, `let`, `image`, `preimage`) on small '
           'managers: every result is the canonical reference of its '
           'function and leaves the tables reduced and consistent.',
    'C03': ' Models: `quantify` for every reference, subset of variables '
           'and quantifier on two managers over three variables against '
           'truth tables; `autoref.BDD.apply` under five node numberings.',
    'C04': ' Models: `let` with function values (528 substitutions, among '
           'them constants and low node numbers), with Boolean values '
           '(288 cofactors) and with variables for variables (272 '
           'renamings: swaps, cycles, two variables to one) against '
           'truth tables.',
    'C05': ' Models: the shared translator bound to the manager of each '
           'call and reset after it; identifiers that begin with a '
           'keyword probed through the source-level lexer; `to_expr` of '
           'every reference of two managers read back by an evaluator '
           'of the documented syntax.',
    'C06': ' Models: `incref` / `decref`, `find_or_add` (count zero, one '
           'reference per edge); `collect_garbage` on managers that hold '
           'garbage, for every choice of referenced functions, with and '
           'without roots to start from.',
    'C07': ' Models: `swap` on nine managers (levels exchanged, outside '
           'references keep number and function, tables and counts '
           'consistent, per-level index exact, sizes returned); the '
           'functions that drive `swap` on a manager reduced to its '
           'variable order (every start and target permutation of four '
           'variables, pairs adjacent, sifted variable at a position of '
           'least size, never larger); `reorder` with real swaps (explicit '
           'orders and sifting) on managers that hold unreferenced nodes, '
           'followed by a collection.',
    'C08': ' Models: `Function.__init__` / `__del__` against a recording '
           'manager; `BDD.__del__`; `autoref.BDD.apply`; every method '
           '`dd.autoref.BDD` shares with `dd.bdd.BDD` interpreted on both '
           'sides from the same manager (about 100 calls, two orders) '
           'and compared.',
    'C09': ' Models: the wrapper of `_try_to_reorder` in five scenarios; '
           '`_load_json` against a manager that records `configure` '
           '(the reordering switch is afterwards what it was, on every '
           'way out); `BDD.configure` for every listing order of a valid '
           'and an unknown parameter.',
    'C10': ' Models: `support`, `descendants`, `is_essential` against '
           'reachability; `count` and `pick_iter` against truth tables '
           '(702 calls on three managers).',
    'C11': ' Models: `copy_vars` leaves the two managers agreeing or '
           'refuses; `BDD.copy`, `dd.bdd.copy_bdd`, `dd._copy.copy_bdd` '
           'and `copy_bdds_from` (handles, one memo for several roots) '
           'into targets with another order, a further variable and '
           'nodes of their own, against truth tables by variable name.',
    'C12': ' Models: `_dump_bdd` then `load` on what it wrote (fresh '
           'manager, other variable order with levels=False, same '
           'manager); `BDD(levels)` for level tables listed in another '
           'order.',
    'C13': ' Models: `image` (any order, also nested non-adjacent pairs) '
           'and `preimage` (adjacent pairs) on managers over four '
           'variables against rename / conjoin / quantify on truth '
           'tables; `autoref.image` / `preimage` interpreted together '
           'with the handle class and the integer manager, also with '
           'nothing quantified or nothing renamed.',
    'C14': ' Models: `add_var` for every (name, level) request on five '
           'managers; `undeclare_vars` for every subset on five managers; '
           '`BDD(levels)`; `copy_vars`; `declare` of `dd.bdd` and '
           '`dd.autoref` for lists with new, declared and repeated names.',
    'C15': ' Models: `MDD.find_or_add`, `MDD._top_cofactor`, `MDD.ite` '
           'and `MDD.apply` on a diagram with a three-valued above a '
           'two-valued variable (710 calls against the values over all '
           'six assignments); `incref` / `decref`; `bdd_to_mdd` with '
           'collection, reordering and the MDD class interpreted (30 '
           'conversions: both integer orders, three initial bit orders, '
           'a zone node referenced from inside and from above its zone) '
           'against the values on the encoded bits; `MDD.collect_garbage` for '
           'every choice of referenced top nodes.',
    'C16': ' Models: `dddmp.load` on the output of the parser for five '
           'small files (levels with gaps, node numbers in no order, '
           'constant roots) against a strict reference manager; '
           '`_parse_header` / `_parse_body` for .varinfo 0, 1, 3.',
    'C17': ' Models: `BDD.load` on six files the writer does not produce '
           '(a refused file leaves the manager reduced, consistent, with '
           'levels 0..n-1 and every live reference unchanged); '
           '`BDD.configure` (a refused call changes nothing); `_load_json` '
           'and the reordering switch; the temporary directory of the JSON '
           'loader and dumper on four ways out.',
    'C18': ' Models: `_to_dot` with `DotGraph` on twelve graphs (arcs, '
           'styles, complement marks, one external reference per root), '
           'and the legend of doc.md against the styles used; `support` / '
           '`descendants`; the views of `autoref.Function` (var, level, '
           'low, high, negated, size, support, count, copy) on every '
           'reference of two managers; `autoref.BDD.succ` and the other '
           'shared methods against `dd.bdd.BDD`; `to_nx` against a model of '
           'the graph class (nodes, levels, arcs, the function recovered '
           'by walking the graph).',
    'C19': ' Models: the finalisers of the four Cython `Function` classes '
           'against a recording library call; the hand-written ZDD '
           'recursions of cudd_zdd.pyx (`_forall`, `_exist`, `_conjoin`, '
           '`_disjoin`) read from the lowered Cython tree and '
           'interpreted against a specification of the CUDD primitives '
           'they call (352 calls over two index-to-level permutations).',
}
NOT_DECIDED = {
    'C01': 'the ITE recursion on diagrams beyond the three-variable '
           'models; warm-cache histories beyond the invalidation rule.',
    'C02': 'the "iff" beyond the small models (global induction over the '
           'node table); histories of operations.',
    'C03': 'quantification on diagrams beyond the three-variable models.',
    'C04': 'substitution on diagrams beyond the three-variable models.',
    'C07': 'managers with more than three (swap) or four (drivers) '
           'variables; sifting by set order of the names.',
    'C10': 'counts and enumerations on diagrams beyond the '
           'three-variable models.',
    'C13': 'relations over more than two pairs.',
    'C15': 'bdd_to_mdd on diagrams over more than three bits or more '
           'than two integer variables.',
    'C16': 'the header grammar itself (PLY); .varinfo 2 and 4.',
    'C18': 'graph isomorphism of the networkx export; rendering.',
}
for _pid, _t in MODEL_TEXT.items():
    PROPS[_pid]['explanation'] += _t
    PROPS[_pid]['technique'] += (
        '; finite-model interpretation of the syntax tree of single '
        'functions (no execution of the package)')
for _pid, _t in NOT_DECIDED.items():
    PROPS[_pid]['not_decided'] = _t
