"""Property id -> rules."""
from .rules import optab

PROPS = dict()


def prop(pid, rules, explanation, not_decided='', cython=False):
    PROPS[pid] = dict(rules=rules, explanation=explanation,
                      not_decided=not_decided, cython=cython)


prop('C01', [
    optab.r_vocab,
    optab.r_apply_validates([('dd.bdd', 'BDD')]),
    optab.r_optab_bdd,
    optab.r_ite_terminals,
    optab.r_optab_functions({'dd.autoref'}),
], 'x')
prop('C15', [
    optab.r_optab_mdd,
    optab.r_apply_validates([('dd.mdd', 'MDD')]),
    optab.r_ite_terminals,
], 'x')
prop('C19', [
    optab.r_optab_backends,
    optab.r_optab_functions({'dd.cudd', 'dd.cudd_zdd', 'dd.sylvan',
                             'dd.buddy'}),
    optab.r_quant_wrappers({'dd.cudd', 'dd.cudd_zdd', 'dd.sylvan'}),
], 'x', cython=True)

NOT_BUILT = dict()
