"""Variant corpus for the self-validation (see selftest.py).

Each entry: id, props (ids whose check must react / stay silent), kind
('breaking' | 'benign'), edits [(file, old, new)], expect (fragment of the
finding key for breaking variants), note.
"""
VARIANTS = []


def V(id, props, kind, edits, expect=None, note=''):
    if isinstance(props, str):
        props = [props]
    VARIANTS.append(dict(id=id, props=props, kind=kind, edits=edits,
                         expect=expect, note=note))


B = 'dd/bdd.py'
A = 'dd/autoref.py'

# ---------------------------------------------------------------- R-OPTAB
V('optab-or-as-implies', 'C01', 'breaking',
  [(B, "return self.ite(u, 1, v)\n        elif op in ('and',",
       "return self.ite(u, v, 1)\n        elif op in ('and',")],
  "R-OPTAB/alias/dd.bdd.BDD.apply", 'or computed as implies')
V('optab-alias-moved', 'C01', 'breaking',
  [(B, "elif op in ('=>', '->', 'implies'):",
       "elif op in ('=>', 'implies'):"),
   (B, "elif op in ('<=>', '<->', 'equiv'):",
       "elif op in ('<=>', '<->', '->', 'equiv'):")],
  "R-OPTAB/alias/dd.bdd.BDD.apply/'->'", "'->' moved to the equiv group")
V('optab-diff-wrong', 'C01', 'breaking',
  [(B, "return self.ite(u, -v, -1)", "return self.ite(v, -u, -1)")],
  "R-OPTAB/alias/dd.bdd.BDD.apply", 'diff with swapped operands')
V('optab-forall-kind', ['C01', 'C03'], 'breaking',
  [(B, """            return self.quantify(
                v, qvars,
                forall=True)""", """            return self.quantify(
                v, qvars,
                forall=False)""")],
  "R-OPTAB/alias/dd.bdd.BDD.apply", r'\A quantifies existentially')
V('optab-le-reversed', 'C01', 'breaking',
  [(A, "return (other | ~ self) == self.bdd.true",
       "return (self | ~ other) == self.bdd.true")],
  "R-OPTAB/method/dd.autoref.Function.__le__", '<= reversed')
V('optab-lt-nonstrict', 'C01', 'breaking',
  [(A, "return self <= other and self != other",
       "return self <= other")],
  "R-OPTAB/method/dd.autoref.Function.__lt__", '< not strict')
V('optab-ite-terminal', 'C01', 'breaking',
  [(B, """        if g == 1:
            return u
        elif g == -1:
            return v
        # g is non-terminal
        # already computed ?
        r = (g, u, v)""", """        if g == 1:
            return u
        elif g == -1:
            return u
        # g is non-terminal
        # already computed ?
        r = (g, u, v)""")],
  "R-OPTAB/ite-terminal", 'ite(false, u, v) returns u')
V('vocab-alias-dropped', 'C01', 'breaking',
  [('dd/_abc.py', "    '<->',\n", "")],
  "R-VOCAB/missing", "'<->' removed from the vocabulary")
V('vocab-arity-swapped', ['C01'], 'breaking',
  [('dd/_utils.py', """    elif op in operators['binary']:
        if v is None:
            raise ValueError(
                '`v is None`')""", """    elif op in operators['binary']:
        if v is not None and w is None:
            return
        if v is None:
            raise ValueError(
                '`v is None`')""")],
  None, 'benign restructuring of the arity check')
VARIANTS[-1]['kind'] = 'benign'
V('optab-benign-new-spelling', 'C01', 'benign',
  [(B, "elif op in ('#', 'xor', '^'):", "elif op in ('#', 'xor', '^', '!='):")],
  None, 'an extra spelling in one chain only is not a violation')
V('optab-benign-local', 'C01', 'benign',
  [(B, "return self.ite(u, v, -1)\n        elif op in ('#'",
       "r = self.ite(u, v, -1)\n            return r\n        elif op in ('#'")],
  None, 'result through a local')
V('optab-mdd-xor', 'C15', 'breaking',
  [('dd/mdd.py', "return self.ite(u, -v, v)", "return self.ite(u, v, -v)")],
  "R-OPTAB/alias/dd.mdd.MDD.apply", 'MDD xor computed as equiv')
V('optab-cudd-implies', 'C19', 'breaking',
  [('dd/cudd.pyx', """            r = Cudd_bddIte(
                mgr, u.node, v.node,
                Cudd_ReadOne(mgr))
        elif op in ('<=>', '<->', 'equiv'):""", """            r = Cudd_bddIte(
                mgr, v.node, u.node,
                Cudd_ReadOne(mgr))
        elif op in ('<=>', '<->', 'equiv'):""")],
  "R-OPTAB/alias/dd.cudd.BDD.apply", 'cudd implies reversed')

# ----------------------------------------------------------------- R-SIGN
V('sign-vcompose-hit', 'C04', 'breaking',
  [(B, """            if r == 0:
                raise AssertionError(r)
            # complement ?
            if f < 0:
                r = -r
            return r""", """            if r == 0:
                raise AssertionError(r)
            return r""")],
  'R-SIGN/sign-lost/dd.bdd.BDD._vector_compose',
  'memo hit of _vector_compose forgets the complement')
V('sign-quantify-pushdown', 'C03', 'breaking',
  [(B, """        # complement ?
        if u < 0:
            v, w = -v, -w
        n = len(ordvar)""", """        n = len(ordvar)""")],
  'R-SIGN/sign-lost/dd.bdd.BDD._quantify', 'no push-down in _quantify')
V('sign-topcofactor', ['C01', 'C03', 'C04', 'C13'], 'breaking',
  [(B, """        # complement ?
        if u < 0:
            v, w = -v, -w
        return (v, w)""", """        return (v, w)""")],
  'R-SIGN/sign-lost/dd.bdd.BDD._top_cofactor', 'no sign in _top_cofactor')
V('sign-satlen-miss', 'C10', 'breaking',
  [(B, """        d[abs(u)] = n
        # complement ?
        if u < 0:
            n = 2**(map_level['all'] - i) - n
        return self._assert_int(n)""", """        d[abs(u)] = n
        return self._assert_int(n)""")],
  'R-SIGN/sign-lost/dd.bdd.BDD._sat_len', 'miss path of _sat_len')
V('sign-satlen-hit', 'C10', 'breaking',
  [(B, """            n = d[abs(u)]
            # complement ?
            if u < 0:
                n = 2**(map_level['all'] - i) - n
            return self._assert_int(n)""", """            n = d[abs(u)]
            return self._assert_int(n)""")],
  'R-SIGN/sign-lost/dd.bdd.BDD._sat_len', 'hit path of _sat_len')
V('sign-satiter', 'C10', 'breaking',
  [(B, """        if u < 0:
            value = not value
        # terminal ?""", """        # terminal ?""")],
  'R-SIGN/sign-lost/dd.bdd.BDD._sat_iter', '_sat_iter ignores complement')
V('sign-cofactor-pullup', 'C04', 'breaking',
  [(B, """        # complement ?
        if u < 0:
            r = -r
        cache[u] = r
        return r""", """        cache[u] = r
        return r""")],
  'R-SIGN/sign-lost/dd.bdd.BDD._cofactor', '_cofactor forgets complement')
V('sign-compose-eq', 'C04', 'breaking',
  [(B, """            r = self.ite(g, w, v)
            # complemented edge ?
            if f < 0:
                r = -r""", """            r = self.ite(g, w, v)""")],
  'R-SIGN/sign-lost/dd.bdd.BDD._compose', '_compose at the level of var')
V('sign-copy-hit', ['C04', 'C11'], 'breaking',
  [(B, """        if r <= 0:
            raise AssertionError(r)
        # complement ?
        if u < 0:
            r = -r
        return r
    # recurse
    jold, v, w = old_bdd._succ[abs(u)]""", """        if r <= 0:
            raise AssertionError(r)
        return r
    # recurse
    jold, v, w = old_bdd._succ[abs(u)]""")],
  'R-SIGN/sign-lost/dd.bdd._copy_bdd', 'memo hit of _copy_bdd')
V('sign-toexpr', 'C05', 'breaking',
  [(B, """        # complemented ?
        if u < 0:
            expr = f'(~ {expr})'
        cache[u] = expr""", """        cache[u] = expr""")],
  'R-SIGN/sign-lost/dd.bdd.BDD._to_expr', 'printer drops negation')
V('sign-load-memo', 'C12', 'breaking',
  [(B, """            if r <= 0:
                raise AssertionError(r)
            if u < 0:
                r = -r
            return r
        i, v, w = succ[abs(u)]""", """            if r <= 0:
                raise AssertionError(r)
            return r
        i, v, w = succ[abs(u)]""")],
  'R-SIGN/sign-lost/dd.bdd.BDD._load', 'memo hit of _load')
V('sign-mapnode', 'C12', 'breaking',
  [(B, """            v = umap[abs(u)]
            if u < 0:
                return - v
            else:
                return v""", """            v = umap[abs(u)]
            return v""")],
  'R-SIGN/sign-lost/dd.bdd.BDD.load.map_node', 'roots lose complement')
V('sign-json-dump-hit', 'C12', 'breaking',
  [('dd/_copy.py', """    if str(k) in cache:
        return -k if u.negated else k""", """    if str(k) in cache:
        return k""")],
  'R-SIGN/sign-lost/dd._copy._dump_bdd', 'JSON writer, node seen before')
V('sign-json-node-from-int', 'C12', 'breaking',
  [('dd/_copy.py', "    return ~ u if uid < 0 else u", "    return u")],
  'R-SIGN/sign-lost/dd._copy._node_from_int', 'JSON reader drops sign')
V('sign-copy-copybdd', 'C11', 'breaking',
  [('dd/_copy.py', """        r = cache[k]
        return _flip(r, u)""", """        r = cache[k]
        return r""")],
  'R-SIGN/sign-lost/dd._copy._copy_bdd', 'memo hit in _copy._copy_bdd')
V('sign-mdd-topcofactor', 'C15', 'breaking',
  [('dd/mdd.py', """            if u < 0:
                return tuple(-v for v in nodes)""", """            if u < 0:
                return tuple(nodes)""")],
  'R-VISIT/cofactors/dd.mdd.MDD._top_cofactor',
  'the successors of a complemented reference are not negated (the sign '
  'dataflow rule cannot see polarity; the cofactor model can)')
V('sign-mdd-edge-map', 'C15', 'breaking',
  [('dd/mdd.py', """        int_succ = [umap[abs(z)] if z > 0 else -umap[abs(z)]
                    for z in bit_succ]""", """        int_succ = [umap[abs(z)]
                    for z in bit_succ]""")],
  'R-SIGN/sign-lost/dd.mdd.bdd_to_mdd', 'edge map drops complement')
V('sign-dddmp', 'C16', 'breaking',
  [('dd/dddmp.py', """            if v < 0:
                p = -p
            r = bdd.find_or_add(i, p, q)""", """            r = bdd.find_or_add(i, p, q)""")],
  'R-SIGN/sign-lost/dd.dddmp.load', 'complemented else edges ignored')
V('sign-reduction', 'C02', 'breaking',
  [(B, """            p = _flip(p, v)
            q = _flip(q, w)""", """            q = _flip(q, w)""")],
  'R-SIGN/sign-lost/dd.bdd.BDD.reduction', 'reduction drops low sign')
V('sign-tonx', 'C18', 'breaking',
  [(B, """                value=False,
                complement=r)""", """                value=False,
                complement=False)""")],
  'R-SIGN/sign-lost/dd.bdd.to_nx', 'to_nx loses complement attribute')
V('sign-todot', 'C18', 'breaking',
  [(B, """        kw = dict(style='dashed')
        if v < 0:
            kw['taillabel'] = '-1'
        g.add_edge(
            su, sv,""", """        kw = dict(style='dashed')
        g.add_edge(
            su, sv,""")],
  'R-SIGN/sign-lost/dd.bdd._to_dot', 'DOT export loses complement mark')
V('sign-negated', 'C18', 'breaking',
  [(A, "        return self.node < 0", "        return self.node < 1")],
  'R-SIGN/negated', 'negated is true for the terminal too')
V('sign-flip', ['C02', 'C04'], 'breaking',
  [(B, "    return -r if u < 0 else r", "    return -r if u > 0 else r")],
  'R-SIGN/flip/dd.bdd._flip', '_flip polarity')
V('sign-benign-shortcut', ['C01', 'C03', 'C04'], 'benign',
  [(B, """        # u independent of var ?
        if i < iu:
            return (u, u)""", """        # u independent of var ?
        if i < iu:
            t = (u, u)
            return t""")],
  None, 'local in a shortcut return')
V('sign-benign-inline-flip', 'C02', 'benign',
  [(B, """            p = _flip(p, v)
            q = _flip(q, w)""", """            p = -p if v < 0 else p
            q = _flip(q, w)""")],
  None, '_flip replaced by its body')
V('sign-benign-rename-local', 'C04', 'benign',
  [(B, """        r = self.ite(g, q, p)
        # memoize
        cache[abs(f)] = r
        # complement ?
        if f < 0:
            r = -r
        return r""", """        res = self.ite(g, q, p)
        # memoize
        cache[abs(f)] = res
        # complement ?
        if f < 0:
            res = -res
        return res""")],
  None, 'renamed local')
V('sign-benign-pushdown-instead', 'C04', 'benign',
  [(B, """        # complement ?
        if u < 0:
            r = -r
        cache[u] = r
        return r""", """        # complement ?
        r = _flip(r, u)
        cache[u] = r
        return r""")],
  None, 'pull-up through _flip')

# ----------------------------------------------------------------- R-ROLE
V('role-ite-crossed', 'C01', 'breaking',
  [(B, "        w = self.find_or_add(z, p, q)\n        # cache",
       "        w = self.find_or_add(z, q, p)\n        # cache")],
  'R-ROLE/crossed/dd.bdd.BDD._ite', 'find_or_add(z, HIGH, LOW) in _ite')
V('role-ite-mixed', 'C01', 'breaking',
  [(B, "        p = self._ite(g0, u0, v0)", "        p = self._ite(g0, u1, v0)")],
  'R-ROLE/mixed-recursion/dd.bdd.BDD._ite', 'inhomogeneous recursion')
V('role-quantify', 'C03', 'breaking',
  [(B, "            r = self.find_or_add(i, p, q)\n        cache[u] = r\n        return r\n\n    def forall(",
       "            r = self.find_or_add(i, q, p)\n        cache[u] = r\n        return r\n\n    def forall(")],
  'R-ROLE/crossed/dd.bdd.BDD._quantify', 'branches exchanged')
V('role-compose-ite', 'C04', 'breaking',
  [(B, "            r = self.ite(g, w, v)\n            # complemented edge ?",
       "            r = self.ite(g, v, w)\n            # complemented edge ?")],
  'R-ROLE/crossed/dd.bdd.BDD._compose', 'ite(g, LOW, HIGH)')
V('role-vcompose', 'C04', 'breaking',
  [(B, "        r = self.ite(g, q, p)\n        # memoize\n        cache[abs(f)] = r",
       "        r = self.ite(g, p, q)\n        # memoize\n        cache[abs(f)] = r")],
  'R-ROLE/crossed/dd.bdd.BDD._vector_compose', 'ite(g, LOW, HIGH)')
V('role-cofactor-value', 'C04', 'breaking',
  [(B, "            if bool(val):\n                v = w", "            if not bool(val):\n                v = w")],
  'R-ROLE/value-arm/dd.bdd.BDD._cofactor', 'True selects the low branch')
V('role-compose-mixed', 'C04', 'breaking',
  [(B, """            p = self._compose(
                f0, j, g0,
                cache)""", """            p = self._compose(
                f0, j, g1,
                cache)""")],
  'R-ROLE/mixed-recursion/dd.bdd.BDD._compose', 'f0 with g1')
V('role-copy', ['C04', 'C11'], 'breaking',
  [(B, "    r = bdd.ite(g, q, p)\n    # memoize\n    if r <= 0:",
       "    r = bdd.ite(g, p, q)\n    # memoize\n    if r <= 0:")],
  'R-ROLE/crossed/dd.bdd._copy_bdd', 'ite(g, LOW, HIGH) in copy')
V('role-toexpr', 'C05', 'breaking',
  [(B, "expr = f'ite({var}, {q}, {p})'", "expr = f'ite({var}, {p}, {q})'")],
  'R-ROLE/crossed/dd.bdd.BDD._to_expr', 'printer exchanges branches')
V('role-toexpr-shortcut', 'C05', 'breaking',
  [(B, "if p == 'FALSE' and q == 'TRUE':", "if p == 'TRUE' and q == 'FALSE':")],
  'R-ROLE/const-assoc/dd.bdd.BDD._to_expr', 'shortcut for negated var')
V('role-satiter', 'C10', 'breaking',
  [(B, "        for x in self._sat_iter(v, d0, value):", "        for x in self._sat_iter(v, d1, value):")],
  'R-ROLE/mixed-recursion/dd.bdd.BDD._sat_iter', 'low branch with True')
V('role-copy-copy', 'C11', 'breaking',
  [('dd/_copy.py', "    r = bdd.ite(g, high, low)\n    # if r.negated:",
                   "    r = bdd.ite(g, low, high)\n    # if r.negated:")],
  'R-ROLE/crossed/dd._copy._copy_bdd', 'ite(g, LOW, HIGH)')
V('role-load', 'C12', 'breaking',
  [(B, "        r = self._ite(g, q, p)\n        if r <= 0:",
       "        r = self._ite(g, p, q)\n        if r <= 0:")],
  'R-ROLE/crossed/dd.bdd.BDD._load', 'loader exchanges branches')
V('role-json-writer', 'C12', 'breaking',
  [('dd/_copy.py', """[{u.level}, {low}, {high}]'""", """[{u.level}, {high}, {low}]'""")],
  'R-ROLE/crossed/dd._copy._dump_bdd', 'JSON node written as [level, HIGH, LOW]')
V('role-json-reader', 'C12', 'breaking',
  [('dd/_copy.py', "        u = bdd.ite(g, high, low)", "        u = bdd.ite(g, low, high)")],
  'R-ROLE/crossed/dd._copy._make_node', 'JSON reader')
V('role-json-reader-unpack', 'C12', 'breaking',
  [('dd/_copy.py', "(uid, (level, low_id, high_id)), = d.items()",
                   "(uid, (level, high_id, low_id)), = d.items()")],
  'R-ROLE/crossed/dd._copy._make_node', 'layout read as [level, HIGH, LOW]')
V('role-image', 'C13', 'breaking',
  [(B, "        r = bdd.ite(g, q, p)\n    cache[t] = r", "        r = bdd.ite(g, p, q)\n    cache[t] = r")],
  'R-ROLE/crossed/dd.bdd._image', 'ite(g, LOW, HIGH) in _image')
V('role-image-mixed', 'C13', 'breaking',
  [(B, """    p = _image(
        u0, v0, umap, vmap, qvars,""", """    p = _image(
        u0, v1, umap, vmap, qvars,""")],
  'R-ROLE/mixed-recursion/dd.bdd._image', 'u0 with v1')
V('conn-quantify', 'C03', 'breaking',
  [(B, "                r = self.ite(p, q, -1)\n                    # conjoin",
       "                r = self.ite(p, 1, q)\n                    # conjoin")],
  'R-CONN/encoding/dd.bdd.BDD._quantify', 'forall computed as or')
V('conn-image', 'C13', 'breaking',
  [(B, "            r = bdd.ite(p, 1, q)\n                # disjoin",
       "            r = bdd.ite(p, q, 1)\n                # disjoin")],
  'R-CONN/encoding/dd.bdd._image', 'exists computed as implies')
V('role-dddmp-store', 'C16', 'breaking',
  [('dd/dddmp.py', "        self.bdd[u] = (level, w, v)", "        self.bdd[u] = (level, v, w)")],
  'R-ROLE/swapped-edges/dd.dddmp.Parser._parse_body', 'then/else not swapped')
V('role-dddmp-load', 'C16', 'breaking',
  [('dd/dddmp.py', "            r = bdd.find_or_add(i, p, q)", "            r = bdd.find_or_add(i, q, p)")],
  'R-ARGS/wrong-function/dd.dddmp.load', 'loader exchanges branches')
V('role-low-accessor', 'C18', 'breaking',
  [(A, """        _, v, _ = self.manager._succ[abs(self.node)]
        if v is None:
            return None
        return Function(v, self.bdd)""", """        _, _, v = self.manager._succ[abs(self.node)]
        if v is None:
            return None
        return Function(v, self.bdd)""")],
  'R-ROLE/accessor/dd.autoref.Function.low', 'low returns high')
V('role-succ-autoref', 'C18', 'breaking',
  [(A, "        return i, wrap(v), wrap(w)", "        return i, wrap(w), wrap(v)")],
  'R-ROLE/crossed/dd.autoref.BDD.succ', 'succ exchanges branches')
V('role-tonx', 'C18', 'breaking',
  [(B, """            g.add_edge(
                u, v,
                value=False,""", """            g.add_edge(
                u, v,
                value=True,""")],
  'R-ROLE/edge-label/dd.bdd.to_nx', 'low edge labelled True')
V('role-todot', 'C18', 'breaking',
  [(B, "        kw = dict(style='dashed')\n        if v < 0:", "        kw = dict(style='solid')\n        if v < 0:")],
  'R-ROLE/edge-style/dd.bdd._to_dot', 'low edge drawn solid')
V('role-benign-tuple-split', 'C01', 'benign',
  [(B, "        g0, g1 = self._top_cofactor(g, z)\n        u0, u1",
       "        gc = self._top_cofactor(g, z)\n        g0, g1 = gc\n        u0, u1")],
  None, 'pair through a temporary')
V('role-benign-shortcut', 'C01', 'benign',
  [(B, "        g0, g1 = self._top_cofactor(g, z)\n        u0, u1 = self._top_cofactor(u, z)\n        v0, v1 = self._top_cofactor(v, z)\n        p = self._ite", "        if u == v:\n            return u\n        g0, g1 = self._top_cofactor(g, z)\n        u0, u1 = self._top_cofactor(u, z)\n        v0, v1 = self._top_cofactor(v, z)\n        p = self._ite")],
  None, 'extra shortcut in _ite')

# --------------------------------------------------------- R-SIGN memo side
V('memo-vcompose-store-after-flip', 'C04', 'breaking',
  [(B, """        r = self.ite(g, q, p)
        # memoize
        cache[abs(f)] = r
        # complement ?
        if f < 0:
            r = -r
        return r""", """        r = self.ite(g, q, p)
        # complement ?
        if f < 0:
            r = -r
        # memoize
        cache[abs(f)] = r
        return r""")],
  'R-SIGN/memo-sign/dd.bdd.BDD._vector_compose',
  'signed result stored under the unsigned key')
V('memo-cofactor-store-before-flip', 'C04', 'breaking',
  [(B, """        # complement ?
        if u < 0:
            r = -r
        cache[u] = r
        return r""", """        cache[u] = r
        # complement ?
        if u < 0:
            r = -r
        return r""")],
  'R-SIGN/memo-sign/dd.bdd.BDD._cofactor',
  'unsigned result stored under the signed key')
V('memo-copy-store-after-flip', ['C04', 'C11'], 'breaking',
  [(B, """    cache[abs(u)] = r
    # complement ?
    if u < 0:
        r = -r
    return r


def _flip(""", """    # complement ?
    if u < 0:
        r = -r
    cache[abs(u)] = r
    return r


def _flip(""")],
  'R-SIGN/memo-sign/dd.bdd._copy_bdd', 'copy memo polluted with sign')
V('memo-satlen-store-after-flip', 'C10', 'breaking',
  [(B, """        d[abs(u)] = n
        # complement ?
        if u < 0:
            n = 2**(map_level['all'] - i) - n
        return self._assert_int(n)""", """        # complement ?
        if u < 0:
            n = 2**(map_level['all'] - i) - n
        d[abs(u)] = n
        return self._assert_int(n)""")],
  'R-SIGN/memo-sign/dd.bdd.BDD._sat_len', 'count memo polluted with sign')

# ------------------------------------------------------- R-MEMO / R-INVAL
V('memo-compose-key', 'C04', 'breaking',
  [(B, """        if (f, g) in cache:
            return cache[(f, g)]""", """        if f in cache:
            return cache[f]"""),
   (B, "        cache[(f, g)] = r\n        return r", "        cache[f] = r\n        return r")],
  'R-MEMO/key-incomplete/dd.bdd.BDD._compose', 'g dropped from the key')
V('memo-image-key', 'C13', 'breaking',
  [(B, "    t = (u, v)\n    w = cache.get(t)", "    t = u\n    w = cache.get(t)")],
  'R-MEMO/key-incomplete/dd.bdd._image', 'v dropped from the key')
V('memo-ite-key', ['C01'], 'breaking',
  [(B, "        r = (g, u, v)\n        w = self._ite_table.get(r)", "        r = (g, u)\n        w = self._ite_table.get(r)")],
  'R-MEMO/key-incomplete/dd.bdd.BDD._ite', 'else operand dropped from key')
V('memo-key-mismatch', 'C12', 'breaking',
  [(B, "        umap[abs(u)] = r\n        if u < 0:", "        umap[u] = r\n        if u < 0:")],
  'R-MEMO/key-mismatch/dd.bdd.BDD._load', 'written under the signed key')
V('memo-quantify-persistent', 'C03', 'breaking',
  [(B, """        qvars = self._map_to_level(set(qvars))
        cache = dict()
        ordvar = sorted(qvars)""", """        qvars = self._map_to_level(set(qvars))
        cache = self._qcache
        ordvar = sorted(qvars)"""),
   (B, "        self._ite_table: dict[", "        self._qcache = dict()\n        self._ite_table: dict[")],
  'R-MEMO/stale-memo/dd.bdd.BDD.quantify', 'memo kept on the manager')
V('memo-cofactor-unsorted', 'C04', 'benign',
  [(B, "        ordvar = sorted(level_values)", "        ordvar = list(level_values)")],
  None, 'the cursor is sound for an unsorted list of levels (only slower)')
V('memo-mutable-default', 'C10', 'breaking',
  [(B, """            d:
                dict[
                    _Node,
                    _Nat]
            ) -> _Nat:
        \"\"\"Recurse to compute the number of models.\"\"\"""", """            d:
                dict[
                    _Node,
                    _Nat]={}
            ) -> _Nat:
        \"\"\"Recurse to compute the number of models.\"\"\""""),
   (B, """        r = self._sat_len(
            u, map_level,
            d=dict())""", """        r = self._sat_len(
            u, map_level)""")],
  'R-MEMO/', 'count memo shared between calls through a default argument')
V('inval-collect', ['C01', 'C06'], 'breaking',
  [(B, """                unused.add(w)
        self._ite_table = dict()
        m = len(self)""", """                unused.add(w)
        m = len(self)""")],
  'R-INVAL/no-reset/dd.bdd.BDD.collect_garbage', 'no reset after collection')
V('inval-collect-conditional', ['C01', 'C06'], 'breaking',
  [(B, """                unused.add(w)
        self._ite_table = dict()
        m = len(self)""", """                unused.add(w)
        if n > len(self) + 10:
            self._ite_table = dict()
        m = len(self)""")],
  'R-INVAL/no-reset/dd.bdd.BDD.collect_garbage', 'reset only for big sweeps')
V('inval-undeclare', ['C01', 'C14'], 'breaking',
  [(B, """        # clear cache
        self._ite_table = dict()
        return rm_vars""", """        return rm_vars""")],
  'R-INVAL/no-reset/dd.bdd.BDD.undeclare_vars', 'levels renumbered, cache kept')
V('inval-mdd', 'C15', 'breaking',
  [('dd/mdd.py', """                    unused.add(abs(v))
        self._ite_table = dict()""", """                    unused.add(abs(v))""")],
  'R-INVAL/no-reset/dd.mdd.MDD.collect_garbage', 'MDD cache kept')
V('inval-benign-clear', ['C01', 'C06'], 'benign',
  [(B, """                unused.add(w)
        self._ite_table = dict()
        m = len(self)""", """                unused.add(w)
        self._ite_table.clear()
        m = len(self)""")],
  None, 'clear() instead of a new dict')

# ------------------------------------------------- R-NORM / R-PAIR / R-INVMAP
V('norm-no-factor', ['C01', 'C02'], 'breaking',
  [(B, """        u = self._pred.get(t)
        if u is not None:
            return r * u""", """        u = self._pred.get(t)
        if u is not None:
            return u""")],
  'R-NORM/return/dd.bdd.BDD.find_or_add', 'existing node returned unsigned')
V('norm-low-normalised', ['C01', 'C02'], 'breaking',
  [(B, """        if w < 0:
            v, w = -v, -w
            r = -1""", """        if v < 0:
            v, w = -v, -w
            r = -1""")],
  'R-NORM/', 'normalises on the low edge')
V('norm-half-negation', ['C01', 'C02'], 'breaking',
  [(B, """        if w < 0:
            v, w = -v, -w
            r = -1""", """        if w < 0:
            v, w = v, -w
            r = -1""")],
  'R-NORM/children', 'only the high edge negated')
V('norm-no-elimination', ['C02'], 'breaking',
  [(B, """        # eliminate
        if v == w:
            return r * v
        # already exists ?""", """        # already exists ?""")],
  'R-NORM/elimination', 'redundant nodes created')
V('norm-key-order', ['C02'], 'breaking',
  [(B, "        t = (i, v, w)\n        u = self._pred.get(t)", "        t = (i, w, v)\n        u = self._pred.get(t)")],
  'R-NORM/key', 'key built as (level, high, low)')
V('norm-benign-order-of-checks', ['C02'], 'benign',
  [(B, """        if abs(v) not in self._succ:
            raise ValueError(
                f'argument: {v = } is not '
                'a reference to an existing BDD node')
        if abs(w) not in self._succ:
            raise ValueError(
                f'argument: {w = } is not '
                'a reference to an existing BDD node')""", """        if abs(w) not in self._succ:
            raise ValueError(
                f'argument: {w = } is not '
                'a reference to an existing BDD node')
        if abs(v) not in self._succ:
            raise ValueError(
                f'argument: {v = } is not '
                'a reference to an existing BDD node')""")],
  None, 'validation order exchanged')
V('pair-no-incref-low', ['C02', 'C06'], 'breaking',
  [(B, """        # increment reference counters
        self.incref(v)
        self.incref(w)
        return r * u""", """        # increment reference counters
        self.incref(w)
        return r * u""")],
  'R-PAIR/edge-without-ref/dd.bdd.BDD.find_or_add', 'low child not counted')
V('pair-decref-unguarded', 'C06', 'breaking',
  [(B, """                UserWarning)
            return
        self._ref[abs(u)] -= 1""", """                UserWarning)
        self._ref[abs(u)] -= 1""")],
  'R-PAIR/counter/dd.bdd.BDD.decref', 'decrement after the warning')
V('pair-collect-no-decref', 'C06', 'breaking',
  [(B, """            # decrement reference counters
            self.decref(v)
            self.decref(w)
            # unused ?""", """            # decrement reference counters
            self.decref(v)
            # unused ?""")],
  'R-PAIR/collect/dd.bdd.BDD.collect_garbage', 'high child not released')
V('pair-collect-no-enqueue', 'C06', 'breaking',
  [(B, """            if not self._ref[w] and w != 1:
                unused.add(w)
        self._ite_table = dict()""", """        self._ite_table = dict()""")],
  'R-PAIR/collect/dd.bdd.BDD.collect_garbage', 'cascade stops at high child')
V('pair-collect-seed', 'C06', 'breaking',
  [(B, """        unused = filter(
            is_unused, roots)
        unused = set(map(
            abs, unused))""", """        unused = set(map(
            abs, roots))""")],
  'R-PAIR/collect/dd.bdd.BDD.collect_garbage/seed', 'referenced roots deleted')
V('pair-swap-no-incref', ['C06', 'C07'], 'breaking',
  [(B, """            self._pred[r] = u
            self.incref(p)
            self.incref(q)""", """            self._pred[r] = u
            self.incref(p)""")],
  'R-PAIR/swap-acquire/dd.bdd.BDD.swap', 'new high child not counted')
V('pair-swap-no-decref', ['C06', 'C07'], 'breaking',
  [(B, """            self.decref(v)
            self.decref(w)
            # possibly unused
            garbage.add(abs(v))""", """            self.decref(v)
            # possibly unused
            garbage.add(abs(v))""")],
  'R-PAIR/swap-release/dd.bdd.BDD.swap', 'old high child stays counted')
V('pair-swap-garbage', ['C06', 'C07'], 'breaking',
  [(B, """            garbage.add(abs(v))
            garbage.add(w)""", """            garbage.add(abs(v))""")],
  'R-PAIR/swap-garbage/dd.bdd.BDD.swap', 'old high child never collected')
V('invmap-swap-no-pred', ['C02', 'C07'], 'breaking',
  [(B, """            r = (y, v, w)
            self._succ[u] = r
            if r in self._pred:
                raise AssertionError(r)
            self._pred[r] = u
            done.add(u)""", """            r = (y, v, w)
            self._succ[u] = r
            if r in self._pred:
                raise AssertionError(r)
            done.add(u)""")],
  'R-INVMAP/tables/dd.bdd.BDD.swap', 'unique table not updated in loop 2')
V('invmap-swap-done', ['C02', 'C07'], 'breaking',
  [(B, """            self._pred[r] = u
            done.add(u)""", """            self._pred[r] = u""")],
  '/dd.bdd.BDD.swap/', 'independent nodes rewritten twice')
V('invmap-swap-vars', ['C02', 'C07'], 'breaking',
  [(B, """        self._level_to_var[y] = vx
        self._level_to_var[x] = vy""", """        self._level_to_var[y] = vy
        self._level_to_var[x] = vx""")],
  'R-INVMAP/tables/dd.bdd.BDD.swap', 'inverse map not swapped')
V('invmap-undeclare-pred', ['C02', 'C14'], 'breaking',
  [(B, """        self._pred = {
            v: k
            for k, v in
                self._succ.items()}
        # clear cache""", """        # clear cache""")],
  'R-INVMAP/rebuild/dd.bdd.BDD.undeclare_vars', 'unique table keeps old levels')
V('invmap-addvar-terminal', ['C14'], 'breaking',
  [(B, """        self._level_to_var[level] = var
        # move the leaf node to
        # the new bottom level
        self._init_terminal(len(self.vars))
        return level""", """        self._level_to_var[level] = var
        return level""")],
  'R-INVMAP/terminal/dd.bdd.BDD.add_var', 'terminal stays above the new variable')
V('invmap-terminal-stale', ['C02', 'C14'], 'breaking',
  [(B, """        told = self._succ.setdefault(u, t)
        self._pred.pop(told, None)
        self._succ[u] = t""", """        told = self._succ.setdefault(u, t)
        self._succ[u] = t""")],
  'R-INVMAP/stale-entry/dd.bdd.BDD._init_terminal', 'old terminal key stays')
V('writers-foreign', ['C02', 'C06'], 'breaking',
  [(A, """    def collect_garbage(
            self
            ) -> None:
        \"\"\"Recursively remove nodes with zero reference count.\"\"\"
        self._bdd.collect_garbage()""", """    def collect_garbage(
            self
            ) -> None:
        \"\"\"Recursively remove nodes with zero reference count.\"\"\"
        self._bdd.collect_garbage()
        self._bdd._ref = {
            u: k for u, k in self._bdd._ref.items()
            if u in self._bdd._succ}""")],
  'R-WRITERS/foreign-writer/dd.autoref.BDD.collect_garbage', 'autoref writes _ref')
V('mdd-norm', 'C15', 'breaking',
  [('dd/mdd.py', """        u = self._pred.get(t)
        if u is not None:
            return r * u
        u = self._allocate()""", """        u = self._pred.get(t)
        if u is not None:
            return u
        u = self._allocate()""")],
  'R-NORM/return/dd.mdd.MDD.find_or_add', 'MDD node returned unsigned')
V('mdd-pair', 'C15', 'breaking',
  [('dd/mdd.py', """        # reference counting
        for v in nodes:
            self.incref(v)
        return r * u""", """        return r * u""")],
  'R-PAIR/edge-without-ref/dd.mdd.MDD.find_or_add', 'MDD children not counted')

# ------------------------------------------------------------------ R-REORD
V('reord-cube-undecorated', 'C09', 'breaking',
  [(B, "    @_try_to_reorder\n    def cube(", "    def cube(")],
  'R-REORD/decorator-missing/dd.bdd.BDD.cube', 'cube loses its decorator')
V('reord-ite-undecorated', 'C09', 'breaking',
  [(B, "    @_try_to_reorder\n    def ite(", "    def ite(")],
  'R-REORD/decorator-missing/dd.bdd.BDD.ite', 'ite loses its decorator')
V('reord-new-raw-entry', 'C09', 'breaking',
  [(A, """        r = self._bdd.cube(dvars)
        return self._wrap(r)""", """        r = self._bdd.true
        for var, val in dvars.items():
            lit = self._bdd.find_or_add(
                self._bdd.vars[var], -1, 1)
            r = self._bdd.ite(lit if val else -lit, r, -1)
        return self._wrap(r)""")],
  'R-REORD/raw-entry/dd.autoref.BDD.cube', 'autoref.cube rebuilt on raw calls')
V('reord-no-rearm', 'C09', 'breaking',
  [(B, """        finally:
            # enable reordering requests
            bdd._last_len = GROWTH_FACTOR * len_after
        return r""", """        finally:
            pass
        return r""")],
  'R-REORD/protocol', 'reordering stays off after the first request')
V('reord-no-disable', 'C09', 'breaking',
  [(B, """        bdd._last_len = None
        reorder(bdd)""", """        reorder(bdd)""")],
  'R-REORD/protocol', 'sifting with requests enabled')
V('reord-retry-outside-context', 'C09', 'breaking',
  [(B, """            with _ReorderingContext(bdd):
                r = func(
                    bdd,
                    *args, **kwargs)""", """            r = func(
                bdd,
                *args, **kwargs)""")],
  'R-REORD/protocol', 'retry outside the nesting context')
V('reord-exit-no-restore', ['C09', 'C17'], 'breaking',
  [(B, """        self.bdd._reordering_context = self.nested
        not_nested = (
            ex_type is _NeedsReordering and
            not self.nested)
        if not_nested:
            return True""", """        not_nested = (
            ex_type is _NeedsReordering and
            not self.nested)
        if not_nested:
            self.bdd._reordering_context = self.nested
            return True
        if ex_type is None:
            self.bdd._reordering_context = self.nested""")],
  'R-REORD/context/dd.bdd._ReorderingContext.__exit__/restore',
  'flag not restored when another exception passes through')
V('reord-exit-nested-serves', 'C09', 'breaking',
  [(B, """        not_nested = (
            ex_type is _NeedsReordering and
            not self.nested)""", """        not_nested = (
            ex_type is _NeedsReordering)""")],
  'R-REORD/context/dd.bdd._ReorderingContext.__exit__/suppress',
  'nested calls swallow the request')
V('reord-request-late', ['C09'], 'breaking',
  [(B, """        _request_reordering(self)
        if i < 0:
            raise ValueError(
                f'The given level: {i = } < 0')""", """        if i < 0:
            raise ValueError(
                f'The given level: {i = } < 0')"""),
   (B, """        self._min_free = self._next_free_int(u)
        # increment reference counters""", """        self._min_free = self._next_free_int(u)
        _request_reordering(self)
        # increment reference counters""")],
  'R-REORD/request/dd.bdd.BDD.find_or_add', 'request raised after the insert')
V('reord-benign-rename-flag', 'C09', 'benign',
  [(B, """        not_nested = (
            ex_type is _NeedsReordering and
            not self.nested)
        if not_nested:
            return True""", """        outermost_request = (
            not self.nested and
            ex_type is _NeedsReordering)
        if outermost_request:
            return True""")],
  None, 'renamed local, operands exchanged')

# ------------------------------------------------------------ C08 handles
V('handle-escape-var', 'C08', 'breaking',
  [(A, """        r = self._bdd.var(var)
        return self._wrap(r)""", """        r = self._bdd.var(var)
        return r""")],
  'R-PAIR/escape/dd.autoref.BDD.var', 'raw int returned')
V('handle-escape-succ', 'C08', 'breaking',
  [(A, "        return i, wrap(v), wrap(w)", "        return i, wrap(v), w")],
  'R-PAIR/escape/dd.autoref.BDD.succ', 'high successor returned raw')
V('handle-escape-image', 'C08', 'breaking',
  [(A, """        qvars, trans.manager, forall)
    return trans.bdd._wrap(u)


def preimage(""", """        qvars, trans.manager, forall)
    return u


def preimage(""")],
  'R-PAIR/escape/dd.autoref.image', 'image returns the raw node')
V('handle-double-incref', 'C08', 'breaking',
  [(A, """        r = self._bdd.quantify(u.node, qvars, forall)
        return self._wrap(r)""", """        r = self._bdd.quantify(u.node, qvars, forall)
        self._bdd.incref(r)
        return self._wrap(r)""")],
  'R-PAIR/stray-count/dd.autoref.BDD.quantify', 'extra count never released')
V('handle-init-before-check', 'C08', 'breaking',
  [(A, """        if node not in bdd._bdd:
            raise ValueError(node)
        self.bdd = bdd
        self.manager = bdd._bdd
        self.node = node
        self.manager.incref(node)""", """        bdd._bdd.incref(node)
        if node not in bdd._bdd:
            raise ValueError(node)
        self.bdd = bdd
        self.manager = bdd._bdd
        self.node = node""")],
  None, 'incref before the check: KeyError for unknown nodes, so no leak')
VARIANTS[-1]['kind'] = 'benign'
V('handle-del-no-clear', 'C08', 'breaking',
  [(A, """        node = self.node
        self.node = None
        self.manager.decref(node)""", """        node = self.node
        self.manager.decref(node)""")],
  'R-PAIR/handle-release/dd.autoref.Function.__del__', 'second __del__ releases again')
V('handle-copy-shares', 'C08', 'breaking',
  [(A, "        return Function(self.node, self.bdd)\n\n    def to_expr(",
       "        return self\n\n    def to_expr(")],
  None, 'copy returns self: no second owner, benign')
VARIANTS[-1]['kind'] = 'benign'
V('handle-copy-removed', 'C08', 'breaking',
  [(A, """    def __copy__(
            self
            ) -> 'Function':
        \"\"\"Return new reference to the same node.

        The copy increments the reference count
        of the node, because deleting the copy
        decrements this reference count.
        \"\"\"
        return Function(self.node, self.bdd)

""", "")],
  'R-PAIR/handle-copy', 'F4 reintroduced')
V('handle-wrong-manager', ['C08', 'C11'], 'breaking',
  [(A, """        r = self._bdd.copy(u.node, other._bdd)
        return other._wrap(r)""", """        r = self._bdd.copy(u.node, other._bdd)
        return self._wrap(r)""")],
  'R-DOMAIN/wrong-manager/dd.autoref.BDD.copy', 'copy wrapped by the source manager')
V('handle-parser-gets-wrapper', ['C08', 'C17'], 'breaking',
  [(A, """        r = self._bdd.add_expr(e)
        return self._wrap(r)""", """        return _parser.add_expr(e, self)"""),
   (A, "import dd._copy as _copy\n", "import dd._copy as _copy\nimport dd._parser as _parser\n")],
  'R-PAIR/parser-stack', 'Function objects on the cached LR stack')
V('handle-shutdown-order', 'C08', 'breaking',
  [(B, """        if self._ref[1] > 0:
            self.decref(1)
                # free ref from `self._init_terminal()`
        self.collect_garbage()
        refs_exist = any(""", """        self.collect_garbage()
        refs_exist = any(""")],
  'R-PAIR/shutdown', 'terminal count never released before the check')

# -------------------------------------------------------------------- C17
V('raw-addvar-write-first', ['C17', 'C14'], 'breaking',
  [(B, """        # level already used ?
        level = self._next_free_level(var, level)
        # update the mappings between
        # vars and levels
        self.vars[var] = level""", """        # update the mappings between
        # vars and levels
        self.vars[var] = level
        # level already used ?
        level = self._next_free_level(var, level)""")],
  'R-RAW/raise-after-write/dd.bdd.BDD.add_var', 'name recorded before the level check')
V('raw-undeclare-interleaved', ['C17', 'C14'], 'breaking',
  [(B, """        # remove only unused variables
        for var in vrs:
            level = self.level_of_var(var)
            if level in full_levels:
                raise ValueError(""", """        # remove only unused variables
        for var in vrs:
            level = self.level_of_var(var)
            self._level_to_var.pop(level)
            if level in full_levels:
                raise ValueError(""")],
  'R-RAW/raise-after-write/dd.bdd.BDD.undeclare_vars', 'first variable removed before the second is checked')
V('raw-find-or-add-check-late', ['C17'], 'breaking',
  [(B, """        if abs(w) not in self._succ:
            raise ValueError(
                f'argument: {w = } is not '
                'a reference to an existing BDD node')
        # ensure canonicity of complemented edges""", """        # ensure canonicity of complemented edges"""),
   (B, """        self._ref[u] = 0
        self._min_free = self._next_free_int(u)""", """        self._ref[u] = 0
        if abs(w) not in self._succ:
            raise ValueError(
                f'argument: {w = } is not '
                'a reference to an existing BDD node')
        self._min_free = self._next_free_int(u)""")],
  'R-RAW/', 'child checked after the node was inserted')
V('raw-guard-var', 'C17', 'breaking',
  [(B, """        if var not in self.vars:
            raise ValueError(
                f'undeclared variable "{var}", '
                'the declared variables are:\\n'
                f' {self.vars}')
        j = self.vars[var]""", """        j = self.vars[var]""")],
  'R-RAW/guard-missing/dd.bdd.BDD.var', 'KeyError instead of the documented rejection (guard gone)')
V('raw-guard-autoref-ite', 'C17', 'breaking',
  [(A, """        if v not in self:
            raise ValueError(v)
        r = self._bdd.ite(g.node, u.node, v.node)""", """        r = self._bdd.ite(g.node, u.node, v.node)""")],
  'R-RAW/guard-missing/dd.autoref.BDD.ite', 'foreign else-operand accepted')
V('raw-swap-validate-late', ['C17', 'C07'], 'breaking',
  [(B, """        if abs(x - y) != 1:
            raise ValueError(
                (x, y))
        # count nodes
        oldsize = len(self._succ)""", """        # count nodes
        oldsize = len(self._succ)"""),
   (B, """        # move level y up
        for u, (v, w) in levels[y].items():""", """        if abs(x - y) != 1:
            raise ValueError(
                (x, y))
        # move level y up
        for u, (v, w) in levels[y].items():""")],
  'R-RAW/', 'adjacency checked after the unique table was emptied')
V('raw-temporaries-extra-incref', ['C17', 'C12'], 'breaking',
  [('dd/_copy.py', """    if str(k) in cache:
        return
    low = _node_from_int(low_id, bdd, cache)""", """    if str(k) in cache:
        bdd.incref(bdd._add_int(cache[str(k)]))
        return
    low = _node_from_int(low_id, bdd, cache)""")],
  'R-PAIR/temporaries/dd._copy._make_node', 'duplicate line takes a second count')
V('raw-parser-no-reset', 'C17', 'breaking',
  [('dd/_parser.py', """        u = super().parse(expression)
        self._reset_state()
        return u""", """        u = super().parse(expression)
        return u""")],
  'R-PAIR/parser-stack/dd._parser._Translator.parse', 'operands stay on the LR stack')
V('raw-benign-finally', 'C17', 'benign',
  [('dd/_parser.py', """        u = super().parse(expression)
        self._reset_state()
        return u""", """        try:
            u = super().parse(expression)
        finally:
            self._reset_state()
        return u""")],
  None, 'reset moved into finally')

# ----------------------------------------------------- R-DOMAIN / R-REBUILD
D_ = 'dd/dddmp.py'
V('domain-dddmp-roots-raw', 'C16', 'breaking',
  [(D_, """    for root in roots:
        r = umap[abs(root)]
        if root < 0:
            r = -r
        bdd.roots.add(r)""", """    bdd.roots.update(roots)""")],
  'R-DOMAIN/foreign-id/dd.dddmp.load/roots', 'F1 reintroduced')
V('domain-dddmp-root-sign', 'C16', 'breaking',
  [(D_, """        r = umap[abs(root)]
        if root < 0:
            r = -r
        bdd.roots.add(r)""", """        r = umap[abs(root)]
        bdd.roots.add(r)""")],
  'R-SIGN/sign-lost/dd.dddmp.load', 'complemented roots lose their sign')
V('domain-dddmp-level-unmapped', 'C16', 'breaking',
  [(D_, "            r = bdd.find_or_add(i, p, q)", "            r = bdd.find_or_add(k, p, q)")],
  'R-DOMAIN/foreign-id/dd.dddmp.load/find_or_add', 'file level used as manager level')
V('domain-dddmp-child-unmapped', 'C16', 'breaking',
  [(D_, "            p, q = umap[abs(v)], umap[w]", "            p, q = umap[abs(v)], w")],
  'R-DOMAIN/foreign-id/dd.dddmp.load/find_or_add', 'file id used as a node')
V('domain-load-level-unmapped', 'C12', 'breaking',
  [(B, "        g = self.find_or_add(j, -1, 1)\n        r = self._ite(g, q, p)",
       "        g = self.find_or_add(i, -1, 1)\n        r = self._ite(g, q, p)")],
  'R-DOMAIN/foreign-id/dd.bdd.BDD._load', 'file level used in the manager')
V('rebuild-load-mapped', ['C12', 'C02'], 'breaking',
  [(B, "        g = self.find_or_add(j, -1, 1)\n        r = self._ite(g, q, p)",
       "        r = self.find_or_add(j, p, q)")],
  'R-REBUILD/mapped-level/dd.bdd.BDD._load', 'F3 reintroduced')
V('rebuild-copy-mapped', ['C11', 'C02'], 'breaking',
  [(B, "    g = bdd.find_or_add(jnew, -1, 1)\n    r = bdd.ite(g, q, p)",
       "    r = bdd.find_or_add(jnew, p, q)")],
  'R-REBUILD/mapped-level/dd.bdd._copy_bdd', 'copy at mapped level')
V('domain-copy-level-unmapped', ['C11', 'C04'], 'breaking',
  [(B, "    g = bdd.find_or_add(jnew, -1, 1)\n    r = bdd.ite(g, q, p)",
       "    g = bdd.find_or_add(jold, -1, 1)\n    r = bdd.ite(g, q, p)")],
  'R-DOMAIN/foreign-id/dd.bdd._copy_bdd', 'source level used in the target')
V('domain-copy-levelmap-reversed', ['C11'], 'breaking',
  [(B, """        from_bdd.level_of_var(var):
            to_bdd.level_of_var(var)""", """        to_bdd.level_of_var(var):
            from_bdd.level_of_var(var)""")],
  'R-DOMAIN/level-map/dd.bdd.copy_bdd', 'level map reversed')
V('domain-rename-partial', 'C04', 'breaking',
  [(B, """        levels[var]: levels[dvars.get(var, var)]
        for var in bdd.vars}""", """        levels[var]: levels[dvars[var]]
        for var in dvars}""")],
  'R-DOMAIN/level-map/dd.bdd.rename', 'variables that are not renamed lose their level')
V('domain-mapnode-raw', 'C12', 'breaking',
  [(B, """            v = umap[abs(u)]
            if u < 0:
                return - v
            else:
                return v""", """            v = umap[abs(u)]
            if u < 0:
                return - u
            else:
                return v""")],
  'R-DOMAIN/foreign-return/dd.bdd.BDD.load.map_node', 'file id returned as root')

# ------------------------------------------- R-FORMAT / R-BOUND / R-DISPATCH
V('format-load-none-roots', 'C12', 'breaking',
  [(B, """        if roots is None:
            # All nodes were dumped to the file,
            # without naming any roots.
            return list()
        def map_node(u):""", """        def map_node(u):""")],
  'R-FORMAT/optional-field/dd.bdd.BDD.load', 'F8 reintroduced')
V('format-pickle-key', 'C12', 'breaking',
  [(B, """        d = dict(
            vars=self.vars,
            succ=dict(succ),
            roots=roots)""", """        d = dict(
            vars=self.vars,
            nodes=dict(succ),
            roots=roots)""")],
  'R-FORMAT/pickle-keys/dd.bdd.BDD._load_pickle', 'writer renamed a key')
V('format-manager-ref-dropped', 'C12', 'breaking',
  [(B, """            succ=self._succ,
            ref=self._ref,
            min_free=self._min_free)""", """            succ=self._succ,
            min_free=self._min_free)"""),
   (B, "        bdd._ref = d['ref']\n", "")],
  'R-FORMAT/manager-state', 'reference counts not stored in the manager dump')
V('format-manager-crossed', 'C12', 'breaking',
  [(B, "        bdd._pred = d['pred']\n        bdd._succ = d['succ']",
       "        bdd._pred = d['succ']\n        bdd._succ = d['pred']")],
  'R-FORMAT/manager-state/dd.bdd.BDD._load_manager', 'tables restored crossed')
V('format-json-terminals', 'C12', 'breaking',
  [('dd/_copy.py', """        case 'F':
            return -1
        case 'T':
            return 1""", """        case 'F':
            return 1
        case 'T':
            return -1""")],
  'R-FORMAT/json-terminals', 'T and F decoded crossed')
V('format-json-header', 'C12', 'breaking',
  [('dd/_copy.py', """    roots = d.get('roots')
    if roots is not None:""", """    roots = d.get('root')
    if roots is not None:""")],
  'R-FORMAT/json-fields', 'reader looks for another key')
V('bound-negative-level', 'C14', 'breaking',
  [(B, """        if level < 0:
            raise AssertionError(
                f'`{level = } < 0')
        # level already used ?""", """        # level already used ?""")],
  'R-BOUND/lower', 'negative levels accepted')
VARIANTS[-1]['edits'] = [(B, """        if level < 0:
            raise AssertionError(
                f'`{level = } < 0')
        # level already used ?
        other""", """        # level already used ?
        other""")]
V('bound-occupied', ['C14'], 'breaking',
  [(B, """        other = self._level_to_var.get(level)
        if other is None:
            return level""", """        other = self._level_to_var.get(level)
        if other is None or level is not None:
            return level""")],
  'R-BOUND/occupied', 'occupied level accepted')
V('dispatch-int-first', 'C04', 'breaking',
  [(B, """        if isinstance(value, bool):
            return self.cofactor(u, d)
        elif isinstance(value, int):
            return self.compose(u, d)""", """        if isinstance(value, int):
            return self.compose(u, d)
        elif isinstance(value, bool):
            return self.cofactor(u, d)""")],
  'R-DISPATCH/order/dd.bdd.BDD.let', 'True read as node 1')
V('dispatch-crossed', 'C04', 'breaking',
  [(B, """        if isinstance(value, bool):
            return self.cofactor(u, d)
        elif isinstance(value, int):
            return self.compose(u, d)""", """        if isinstance(value, bool):
            return self.compose(u, d)
        elif isinstance(value, int):
            return self.cofactor(u, d)""")],
  'R-DISPATCH/arms/dd.bdd.BDD.let', 'arms exchanged')

# ---------------------------------------------------------------- R-GRAMMAR
PR = 'dd/_parser.py'
V('grammar-arrow-to-equiv', 'C05', 'breaking',
  [(PR, """          =>
        | \\->
        \"\"\"""", """          =>
        \"\"\""""),
   (PR, """          <=>
        | <\\->
        \"\"\"""", """          <=>
        | <\\->
        | \\->
        \"\"\"""")],
  'R-GRAMMAR/', "'->' lexed as equivalence")
V('grammar-token-value', 'C05', 'breaking',
  [(PR, "        token.value = '<->'\n", "        token.value = '#'\n")],
  'R-GRAMMAR/token-value/dd._parser.Lexer.t_EQUIV', 'EQUIV hands # to apply')
V('grammar-precedence-swap', 'C05', 'breaking',
  [(PR, """            ('left',
                'OR'),
            ('left',
                'AND'),""", """            ('left',
                'AND'),
            ('left',
                'OR'),""")],
  'R-GRAMMAR/precedence', 'and binds weaker than or')
V('grammar-right-assoc', 'C05', 'breaking',
  [(PR, """            ('left',
                'IMPLIES'),""", """            ('right',
                'IMPLIES'),""")],
  'R-GRAMMAR/precedence', 'implication right-associative')
V('grammar-binary-operands', 'C05', 'breaking',
  [(PR, """        p[0] = self._apply(
            p[2], p[1], p[3])""", """        p[0] = self._apply(
            p[2], p[3], p[1])""")],
  'R-GRAMMAR/action/dd._parser.Parser.p_binary', 'operands exchanged')
V('grammar-ite-operands', 'C05', 'breaking',
  [(PR, "            p[1], p[3], p[5], p[7])", "            p[1], p[3], p[7], p[5])")],
  'R-GRAMMAR/action/dd._parser.Parser.p_ternary_conditional', 'then/else exchanged')
V('grammar-forall-test', 'C05', 'breaking',
  [(PR, "                forall = (operator == r'\\A')", "                forall = (operator == r'\\E')")],
  'R-GRAMMAR/translator', 'quantifier kinds exchanged')
V('grammar-rename-direction', 'C05', 'breaking',
  [(PR, """                    k.value: v.value
                    for k, v in subs}""", """                    v.value: k.value
                    for k, v in subs}""")],
  'R-GRAMMAR/translator', 'renaming new->old')
V('grammar-subst-pair', 'C05', 'breaking',
  [(PR, "        p[0] = (old, new)", "        p[0] = (new, old)")],
  'R-GRAMMAR/action/dd._parser.Parser.p_substitution', 'pair orientation')
V('grammar-reserved-crossed', 'C05', 'breaking',
  [(PR, """            'False':
                'FALSE',""", """            'False':
                'TRUE',""")],
  'R-GRAMMAR/reserved', 'False reads as TRUE')
V('grammar-shadow', 'C05', 'breaking',
  [(PR, "    t_MINUS = r' \\- '", "    t_MINUS = r' \\-  >? '")],
  None, "string rule cannot shadow the function rule for '->' (function rules first)")
VARIANTS[-1]['kind'] = 'benign'
V('grammar-printer-token', 'C05', 'breaking',
  [(B, "            return 'FALSE'\n        if u in cache:", "            return 'false'\n        if u in cache:"),
   (B, "        if p == 'FALSE' and q == 'TRUE':", "        if p == 'false' and q == 'TRUE':")],
  'R-FORMAT/printer-tokens', 'printer emits a spelling the lexer reads as a name')
V('grammar-benign-new-alias', 'C05', 'benign',
  [(PR, """          \\&\\&
        | \\&
        | /\\\\
        \"\"\"""", """          \\&\\&
        | \\&
        | /\\\\
        | \\*
        \"\"\"""")],
  None, 'an extra spelling of AND')

# ------------------------------------------------------------------ R-CYTS
Z = 'dd/cudd_zdd.pyx'
V('cyts-forall-leak-on-null', 'C19', 'breaking',
  [(Z, """    q = _forall(mgr, level + 1, w, new_cube)
    if q is NULL:
        Cudd_RecursiveDerefZdd(mgr, p)
        return NULL""", """    q = _forall(mgr, level + 1, w, new_cube)
    if q is NULL:
        return NULL""")],
  'R-CYTS/leak/dd.cudd_zdd._forall', 'p leaks when the second recursion fails')
V('cyts-disjoin-no-final-deref', 'C19', 'breaking',
  [(Z, """    cuddCacheInsert2(
        mgr, _disjoin_cache_id, u, v, r)
    cuddDeref(r)
    return r""", """    cuddCacheInsert2(
        mgr, _disjoin_cache_id, u, v, r)
    return r""")],
  'R-CYTS/leak/dd.cudd_zdd._disjoin', 'result returned with an extra count')
V('cyts-forall-conj', 'C19', 'breaking',
  [(Z, """        r = _find_or_add(mgr, index, conj, conj)
        Cudd_RecursiveDerefZdd(mgr, conj)""", """        r = _find_or_add(mgr, index, conj, conj)""")],
  'R-CYTS/leak/dd.cudd_zdd._forall', 'conj never released')
V('cyts-double-deref', 'C19', 'breaking',
  [(Z, """    if r is NULL:
        Cudd_RecursiveDerefZdd(mgr, p)
        Cudd_RecursiveDerefZdd(mgr, q)
        return NULL
    cuddRef(r)
    Cudd_RecursiveDerefZdd(mgr, p)
    Cudd_RecursiveDerefZdd(mgr, q)
    cuddCacheInsert2(
        mgr, _disjoin_cache_id, u, v, r)""", """    if r is NULL:
        Cudd_RecursiveDerefZdd(mgr, p)
        Cudd_RecursiveDerefZdd(mgr, q)
        return NULL
    cuddRef(r)
    Cudd_RecursiveDerefZdd(mgr, p)
    Cudd_RecursiveDerefZdd(mgr, q)
    Cudd_RecursiveDerefZdd(mgr, q)
    cuddCacheInsert2(
        mgr, _disjoin_cache_id, u, v, r)""")],
  'R-CYTS/over-release/dd.cudd_zdd._disjoin', 'q released twice')
V('cyts-compose-root-table', 'C19', 'breaking',
  [(Z, """        for nd in table.values():
            Cudd_RecursiveDerefZdd(mgr,
                <DdRef><stdint.uintptr_t>nd)
""", "")],
  'R-CYTS/collection/dd.cudd_zdd._compose_root', 'memo table nodes never released')
V('cyts-dddmp-no-deref', 'C19', 'breaking',
  [('dd/cudd.pyx', """        h = wrap(self, r)
        # `Dddmp_cuddBddArrayLoad` references `r`
        Cudd_RecursiveDeref(self.manager, r)""", """        h = wrap(self, r)""")],
  'R-CYTS/leak/dd.cudd.BDD._load_dddmp', 'loaded root keeps the loader reference')
V('cyts-init-no-ref', 'C19', 'breaking',
  [('dd/cudd.pyx', """            # The user is responsible for
            # implementing this invariant.
        Cudd_Ref(node)

    def __hash__(""", """            # The user is responsible for
            # implementing this invariant.

    def __hash__(""")],
  'R-CYTS/handle-acquire/dd.cudd.Function.init', 'handle without a reference')
V('cyts-dealloc-double', 'C19', 'breaking',
  [('dd/sylvan.pyx', """        sy.sylvan_deref(self.node)
        self.node = 0""", """        sy.sylvan_deref(self.node)
        sy.sylvan_deref(self.node)
        self.node = 0""")],
  'R-CYTS/handle-release/dd.sylvan.Function.__dealloc__', 'two releases per handle')
V('cyts-benign-reorder-derefs', 'C19', 'benign',
  [(Z, """    cuddRef(r)
    Cudd_RecursiveDerefZdd(mgr, p)
    Cudd_RecursiveDerefZdd(mgr, q)
    cuddCacheInsert2(
        mgr, _disjoin_cache_id, u, v, r)""", """    cuddRef(r)
    Cudd_RecursiveDerefZdd(mgr, q)
    Cudd_RecursiveDerefZdd(mgr, p)
    cuddCacheInsert2(
        mgr, _disjoin_cache_id, u, v, r)""")],
  None, 'release order exchanged')
V('optab-zdd-xor', 'C19', 'breaking',
  [(Z, """            r = Cudd_zddIte(mgr, u.node, neg.node, v.node)""", """            r = Cudd_zddIte(mgr, u.node, v.node, neg.node)""")],
  'R-OPTAB/alias/dd.cudd_zdd.ZDD.apply', 'ZDD xor computed as equiv')
V('optab-sylvan-quant-swapped', 'C19', 'breaking',
  [('dd/sylvan.pyx', "r = sy.sylvan_forall(v.node, u.node)", "r = sy.sylvan_forall(u.node, v.node)")],
  'R-OPTAB/alias/dd.sylvan.BDD.apply', 'F2 reintroduced')
V('optab-cudd-univ-swapped', 'C19', 'breaking',
  [('dd/cudd.pyx', "r = Cudd_bddUnivAbstract(\n                mgr, v.node, u.node)", "r = Cudd_bddUnivAbstract(\n                mgr, u.node, v.node)")],
  'R-OPTAB/alias/dd.cudd.BDD.apply', 'cube and function exchanged')
V('optab-buddy-or', 'C19', 'breaking',
  [('dd/buddy.pyx', "            r = buddy.bdd_or(u.node, v.node)\n        elif op in ('#'", "            r = buddy.bdd_xor(u.node, v.node)\n        elif op in ('#'")],
  'R-OPTAB/alias/dd.buddy.BDD.apply', 'buddy or computed as xor')
V('optab-cudd-le', 'C19', 'breaking',
  [('dd/cudd.pyx', "        return (other | ~ self) == self.bdd.true\n\n    def __lt__", "        return (self | ~ other) == self.bdd.true\n\n    def __lt__")],
  'R-OPTAB/method/dd.cudd.Function.__le__', '<= reversed in cudd')

# -------------------------------------------------- rules added after seeding
V('domain-terminal-root', 'C12', 'breaking',
  [(B, "        umap = {1: 1}\n        for u in succ:", "        umap = dict()\n        for u in succ:")],
  'R-DOMAIN/terminal-unmapped', 'F10 reintroduced')
V('reord-retry-kwargs', 'C09', 'breaking',
  [(B, """                r = func(
                    bdd,
                    *args, **kwargs)""", """                r = func(
                    bdd,
                    *args)""")],
  'R-REORD/protocol', 'keyword arguments lost on the retry')
V('reord-stale-levels', ['C03', 'C09'], 'breaking',
  [(B, """        elif op in (r'\\E', 'exists'):
            qvars = self.support(u)""", """        elif op in (r'\\E', 'exists'):
            qvars = self.support(u, as_levels=True)""")],
  'R-REORD/stale-level/dd.bdd.BDD.apply', 'levels computed outside the retried call')
V('oneshot-autoref-quantify', 'C03', 'breaking',
  [(A, """        r = self._bdd.quantify(u.node, qvars, forall)
        return self._wrap(r)""", """        if not any(v in self.vars for v in qvars):
            return u
        r = self._bdd.quantify(u.node, qvars, forall)
        return self._wrap(r)""")],
  'R-ONESHOT/traversed-twice/dd.autoref.BDD.quantify', 'iterator consumed before delegating')
V('memo-symmetric-key', 'C13', 'breaking',
  [(B, "    t = (u, v)\n    w = cache.get(t)", "    t = (u, v) if u <= v else (v, u)\n    w = cache.get(t)")],
  'R-MEMO/key-not-injective/dd.bdd._image', 'symmetric key for an asymmetric recursion')
V('conn-guard-strengthened', 'C13', 'breaking',
  [(B, """    # quantified ?
    if z in qvars:
        if forall:
            r = bdd.ite(p, q, -1)""", """    # quantified ?
    if z in qvars and (umap is None or z not in umap):
        if forall:
            r = bdd.ite(p, q, -1)""")],
  'R-CONN/quantified-level-kept/dd.bdd._image', 'renamed levels escape quantification')
V('count-compaction-names', 'C10', 'breaking',
  [(B, """        levels = {
            self.level_of_var(var)
            for var in self.support(u)}
        k = len(levels)""", """        levels = self.support(u)
        k = len(levels)"""),
   (B, """        for new, old in enumerate(sorted(levels)):
            map_level[old] = new + slack""", """        for new, var in enumerate(sorted(levels)):
            map_level[self.level_of_var(var)] = new + slack""")],
  'R-VISIT/compaction-order', 'compact indices in name order')
V('visit-support-one-child', 'C10', 'breaking',
  [(B, """        self._support(v, levels, nodes)
        self._support(w, levels, nodes)""", """        self._support(w, levels, nodes)""")],
  'R-VISIT/child-skipped/dd.bdd.BDD._support', 'low successors never visited')
V('copyvars-enumerate', 'C11', 'breaking',
  [('dd/_copy.py', """    for var in source.vars:
        level = source.level_of_var(var)
        target.add_var(var, level=level)""", """    for level, var in enumerate(source.vars):
        target.add_var(var, level=level)""")],
  'R-ARGS/copy-vars', 'levels from iteration order')
V('json-levels-from-target', 'C12', 'breaking',
  [('dd/_copy.py', """        context['var_at_level'] = {
            v: k for k, v in order.items()}""", """        context['var_at_level'] = {
            bdd.level_of_var(k): k for k in order}""")],
  'R-FORMAT/json-fields/dd._copy._store_line', 'file levels decoded with the manager')
V('undeclare-vars-renumbered', ['C14', 'C02'], 'breaking',
  [(B, """        self.vars = {
            var: new_levels[old]
            for var, old in self.vars.items()
            if old in full_levels}""", """        self.vars = {
            var: new
            for new, var in enumerate(
                var for var, old in self.vars.items()
                if old in full_levels)}""")],
  'R-INVMAP/compaction', 'names renumbered in insertion order')
V('mdd-bits-sorted', 'C15', 'breaking',
  [('dd/mdd.py', """        bits = dvars[var]['bitnames']
        bit_succ = list()""", """        bits = sorted(dvars[var]['bitnames'], key=bdd.level_of_var)
        bit_succ = list()""")],
  'R-ARGS/bit-significance', 'significance follows the BDD order')
V('dddmp-zip-sorted', 'C16', 'breaking',
  [(D_, """                k: var for k, var in zip(self.permuted_var_ids,
                                         self.support_vars)}""", """                k: var for k, var in zip(sorted(self.permuted_var_ids),
                                         self.support_vars)}""")],
  'R-ARGS/misaligned-zip', 'ids sorted before pairing with names')
V('dddmp-single-pass', 'C16', 'breaking',
  [(D_, """    for j in range(len(new_levels) - 1, -1, -1):
        for u, (k, v, w) in bdd_succ.items():
            # terminal ?
            if v is None:
                if w is not None:
                    raise AssertionError(w)
                continue
            # non-terminal
            i = old2new[k]
            if i != j:
                continue
            p, q = umap[abs(v)], umap[w]
            if v < 0:
                p = -p
            r = bdd.find_or_add(i, p, q)
            umap[abs(u)] = r""", """    for u, (k, v, w) in sorted(bdd_succ.items()):
        # terminal ?
        if v is None:
            if w is not None:
                raise AssertionError(w)
            continue
        # non-terminal
        i = old2new[k]
        p, q = umap[abs(v)], umap[w]
        if v < 0:
            p = -p
        r = bdd.find_or_add(i, p, q)
        umap[abs(u)] = r""")],
  'R-ARGS/not-bottom-up', 'assumes children are numbered below parents')
V('tempdir-open-outside-try', ['C17', 'C12'], 'breaking',
  [('dd/_copy.py', """    os.makedirs(SHELVE_DIR)
    try:
        with _open_shelf(tmp_fname) as cache,\\
                open(file_name, 'r') as fd:
            nodes = _load_json(""", """    os.makedirs(SHELVE_DIR)
    fd = open(file_name, 'r')
    try:
        with _open_shelf(tmp_fname) as cache, fd:
            nodes = _load_json(""")],
  'R-PAIR/tempdir-leak/dd._copy.load_json', 'open between makedirs and try')
V('todot-hoisted-kw', 'C18', 'breaking',
  [(B, """    for u in roots:
        i, _, _ = bdd._succ[abs(u)]
        su = f'"ref{u}"'""", """    kw = dict(style='dashed')
    for u in roots:
        i, _, _ = bdd._succ[abs(u)]
        su = f'"ref{u}"'"""),
   (B, """        sv = str(abs(u))
        kw = dict(style='dashed')
        if u < 0:""", """        sv = str(abs(u))
        if u < 0:""")],
  'R-SIGN/loop-carried/dd.bdd._to_dot', 'complement mark carried across roots')
V('tonx-signed-membership', 'C18', 'breaking',
  [(B, """            r = (v < 0)
            v = abs(v)
            w = abs(w)
            if v not in g:
                Q.add(v)
            if w not in g:
                Q.add(w)""", """            if v not in g:
                Q.add(v)
            if w not in g:
                Q.add(w)
            r = (v < 0)
            v = abs(v)
            w = abs(w)""")],
  'R-SIGN/signed-identity/dd.bdd.to_nx', 'membership tested with the signed id')
V('succ-pushes-sign', 'C18', 'breaking',
  [(A, """        i, v, w = self._bdd.succ(u.node)
        def wrap(""", """        i, v, w = self._bdd.succ(u.node)
        if u.negated and v is not None:
            v, w = -v, -w
        def wrap(""")],
  'R-SIGN/rectified-view-signed/dd.autoref.BDD.succ', 'rectified view made sign dependent')
V('lt-total-order', 'C01', 'breaking',
  [(A, "        return self <= other and self != other", "        return not (other <= self)")],
  'R-OPTAB/method/dd.autoref.Function.__lt__', 'strict order from a partial order')
V('ite-standard-triple', 'C01', 'breaking',
  [(B, """        # g is non-terminal
        # already computed ?
        r = (g, u, v)""", """        # g is non-terminal
        if u == -1 and 1 < abs(v) < abs(g):
            g, v = v, g
        # already computed ?
        r = (g, u, v)""")],
  'R-OPTAB/ite-rewrite', 'wrong operand normalisation')
V('ite-standard-triple-ok', 'C01', 'benign',
  [(B, """        # g is non-terminal
        # already computed ?
        r = (g, u, v)""", """        # g is non-terminal
        if u == 1 and 1 < abs(v) < abs(g):
            g, v = v, g
        elif v == -1 and 1 < abs(u) < abs(g):
            g, u = u, g
        # already computed ?
        r = (g, u, v)""")],
  None, 'correct operand normalisations (or / and are commutative)')
V('pairs-stale-snapshot', 'C07', 'breaking',
  [(B, """    levels = bdd._levels()
    for x, y in pairs.items():
        jx = bdd.level_of_var(x)
        jy = bdd.level_of_var(y)""", """    levels = bdd._levels()
    var_levels = bdd.var_levels
    for x, y in pairs.items():
        jx = var_levels[x]
        jy = var_levels[y]""")],
  'R-REORD/stale-snapshot/dd.bdd.reorder_to_pairs', 'levels read from a copy')
V('swap-loop-decref-tuple', ['C06', 'C07'], 'benign',
  [(B, """            self.decref(v)
            self.decref(w)
            # possibly unused
            garbage.add(abs(v))
            garbage.add(w)""", """            for c in (v, w):
                self.decref(c)
            # possibly unused
            garbage.add(abs(v))
            garbage.add(w)""")],
  None, 'release through a loop over a tuple (no de-duplication)')

V('levelset-crossed', 'C07', 'breaking',
  [(B, """            if i == x:
                newy.add(u)
            elif i == y:
                newx.add(u)""", """            if i == x:
                newx.add(u)
            elif i == y:
                newy.add(u)""")],
  'R-LEVELSET/wrong-level-set', 'per-level index crossed for the rewritten nodes')
V('levelset-assign-crossed', 'C07', 'breaking',
  [(B, """        all_levels[x] = newy
        all_levels[y] = newx""", """        all_levels[x] = newx
        all_levels[y] = newy""")],
  'R-LEVELSET/wrong-level-set', 'sets stored under the other level')


# ------------------------------------------------- R-REORD restore-on-error
V('reord-rearm-not-in-finally', ['C09', 'C17'], 'breaking',
  [(B, """        try:
            with _ReorderingContext(bdd):
                r = func(
                    bdd,
                    *args, **kwargs)
        finally:
            # enable reordering requests
            bdd._last_len = GROWTH_FACTOR * len_after
        return r""", """        with _ReorderingContext(bdd):
            r = func(
                bdd,
                *args, **kwargs)
        # enable reordering requests
        bdd._last_len = GROWTH_FACTOR * len_after
        return r""")],
  'R-REORD/restore-on-error/dd.bdd._try_to_reorder._wrapper',
  'the defect F12 re-introduced: a rejected retry leaves reordering off')
V('reord-loadjson-restore-dict', ['C09', 'C17'], 'breaking',
  [('dd/_copy.py', """                reordering=old_reordering['reordering'])""",
    """                reordering=old_reordering)""")],
  'R-REORD/restore-value/dd._copy._load_json',
  'the defect F14 re-introduced: the record returned by configure() is '
  'passed back as the flag')
V('reord-module-reorder-save-restore', 'C17', 'breaking',
  [(B, """    if order is None:
        _apply_sifting(bdd)
    else:
        _sort_to_order(bdd, order)""", """    old = bdd._last_len
    bdd._last_len = None
    if order is None:
        _apply_sifting(bdd)
    else:
        _sort_to_order(bdd, order)
    bdd._last_len = old""")],
  'R-REORD/restore-on-error/dd.bdd.reorder',
  'save/disable/restore of the request threshold without a finally')
V('reord-module-reorder-save-restore-finally', 'C17', 'benign',
  [(B, """    if order is None:
        _apply_sifting(bdd)
    else:
        _sort_to_order(bdd, order)""", """    old = bdd._last_len
    bdd._last_len = None
    try:
        if order is None:
            _apply_sifting(bdd)
        else:
            _sort_to_order(bdd, order)
    finally:
        bdd._last_len = old""")],
  None, 'the same with a finally: nothing to report')


# ------------------------------------------ variants for the later rules
M = 'dd/mdd.py'
C = 'dd/_copy.py'
D = 'dd/dddmp.py'
V('memo-mdd-symmetric-entry-right', 'C15', 'benign',
  [(M, """        self._ite_table[t] = w
        return w""", """        self._ite_table[t] = w
        self._ite_table[(-g, v, u)] = w
        return w""")],
  None, 'ite(-g, v, u) is ite(g, u, v): a correct second entry')
V('memo-mdd-symmetric-entry-wrong', 'C15', 'breaking',
  [(M, """        self._ite_table[t] = w
        return w""", """        self._ite_table[t] = w
        self._ite_table[(-g, u, v)] = -w
        return w""")],
  'R-MEMO/foreign-key-store/dd.mdd.MDD.ite',
  'ite(-g, u, v) is not the negation of ite(g, u, v)')
V('sort-early-exit-right', ['C07'], 'benign',
  [(B, """    for k in range(n):
        for i in range(n - 1):
            for root in bdd.roots:""", """    for k in range(n):
        swapped = False
        for i in range(n - 1):
            for root in bdd.roots:"""),
   (B, """                bdd.swap(i, i + 1, levels)
                m += 1
                logger.debug(
                    f'swap: {p} with {q}, {i}')
            if logger.getEffectiveLevel() < logging.DEBUG:
                bdd.assert_consistent()
    logger.info(f'total swaps: {m}')""", """                bdd.swap(i, i + 1, levels)
                m += 1
                swapped = True
                logger.debug(
                    f'swap: {p} with {q}, {i}')
            if logger.getEffectiveLevel() < logging.DEBUG:
                bdd.assert_consistent()
        if not swapped:
            break
    logger.info(f'total swaps: {m}')""")],
  None, 'bubble sort with a correct early exit (flag accumulates)')
V('accept-merged-level-guards', ['C17', 'C02'], 'benign',
  [(B, """        if i < 0:
            raise ValueError(
                f'The given level: {i = } < 0')
        if i >= len(self.vars):""", """        if not (0 <= i):
            raise ValueError(
                f'The given level: {i = } < 0')
        if not (i < len(self.vars)):""")],
  None, 'the same two guards written the other way round')
V('accept-level-off-by-one', ['C17', 'C02', 'C06'], 'breaking',
  [(B, """        if i >= len(self.vars):
            raise ValueError(
                f'The given level: {i = } is not < of '""",
       """        if i > len(self.vars):
            raise ValueError(
                f'The given level: {i = } is not < of '""")],
  'R-ACCEPT/accepts-invalid/dd.bdd.BDD.find_or_add',
  'a node may be made at the level of the terminal')
V('accept-swap-rejects-top', ['C17'], 'breaking',
  [(B, """        if not (0 <= x < len(self.vars)):
            raise ValueError(x)""", """        if not (0 < x < len(self.vars)):
            raise ValueError(x)""")],
  'R-ACCEPT/rejects-valid/dd.bdd.BDD.swap',
  'the top pair of levels can no longer be swapped')
V('keys-old2new-via-items', 'C16', 'benign',
  [(D, "    old2new = {levels[var]: new_levels[var] for var in levels}",
       "    old2new = {k: new_levels[var] for var, k in levels.items()}")],
  None, 'the same map built from items()')
V('keys-old2new-from-new', 'C16', 'breaking',
  [(D, "    old2new = {levels[var]: new_levels[var] for var in levels}",
       "    old2new = {new_levels[var]: levels[var] for var in levels}")],
  'R-KEYS/', 'the map inverted: new -> old')
V('oneshot-todot-tuple', 'C18', 'benign',
  [(B, """        roots = list(roots)
        nodes = bdd.descendants(roots)""", """        roots = tuple(roots)
        nodes = bdd.descendants(roots)""")],
  None, 'materialised as a tuple instead of a list')
V('oneshot-todot-again', 'C18', 'breaking',
  [(B, """        roots = list(roots)
        nodes = bdd.descendants(roots)""",
       """        nodes = bdd.descendants(roots)""")],
  'R-ONESHOT/traversed-twice/dd.bdd._to_dot', 'F13 re-introduced')
V('argmut-autoref-let-copy', ['C04', 'C08'], 'benign',
  [(A, """            case str() | bool():
                d = definitions""", """            case str() | bool():
                d = dict(definitions)""")],
  None, 'a copy of the caller\'s dictionary')
V('argmut-compose-pop', ['C04', 'C09'], 'breaking',
  [(B, "            (var, g), = var_sub.items()",
       "            var, g = var_sub.popitem()")],
  'R-ARGMUT/argument-edited/dd.bdd.BDD.compose',
  'the retried call sees an emptied dictionary')
V('identity-function-eq', 'C01', 'breaking',
  [(A, "        return self.node == other.node",
       "        return self.node is other.node")],
  'R-LOSSY/identity-on-values/dd.autoref.Function.__eq__',
  'equal node numbers above 256 are different objects')
V('classstate-mdd-table', 'C15', 'breaking',
  [(M, "        self._ite_table: dict = dict()\n        if dvars is None:",
       "        if dvars is None:"),
   (M, '    Represents a Boolean function of integer variables.',
       '    Represents a Boolean function of integer variables.\n    """\n\n    _ite_table: dict = dict()\n\n    """')],
  'R-ALIAS/class-level-state', 'one computed table for all MDD managers')
V('unused-autoref-load-levels', 'C12', 'breaking',
  [(A, "            return self._load_pickle(\n                filename, levels=levels)",
       "            return self._load_pickle(\n                filename)")],
  'R-UNUSED/argument-dropped/dd.autoref.BDD.load',
  'levels=False silently becomes levels=True')
V('falsy-count-nvars', 'C10', 'breaking',
  [(B, "        if n is None:\n            n = k",
       "        if not n:\n            n = k")],
  'R-FALSY/', 'count(u, 0) must be refused for a non-constant u')
V('falsy-pick-iter-care-default', 'C10', 'benign',
  [(B, "        if care_vars is None:\n            care_vars = support",
       "        if care_vars is None or care_vars is ...:\n            care_vars = support")],
  None, 'an extra sentinel for the default')
V('enum-vars-as-levels', 'C18', 'breaking',
  [(B, "    levels = {\n        bdd._succ[abs(u)][0]\n        for u in nodes}",
       "    levels = {\n        k for k, _ in enumerate(bdd.vars)}")],
  'R-ENUM/dict-order-as-level', 'position in `vars` used as level')
V('cache-view-lru', 'C18', 'breaking',
  [(A, "import logging\n", "import functools\nimport logging\n"),
   (A, "    @property\n    def level(", "    @functools.cached_property\n    def level(")],
  'R-CACHE/memoised-view', 'the level of a handle cached across reorderings')
V('alias-var-levels-live', ['C14', 'C07'], 'breaking',
  [(B, "        return dict(self.vars)", "        return self.vars")],
  'R-ALIAS/table-escapes', 'var_levels hands out the live table')
V('term-sign-blind-copy', 'C11', 'breaking',
  [(B, """    # terminal ?
    if abs(u) == 1:
        return u
    # non-terminal
    # memoized ?
    r = cache.get(abs(u))""", """    # terminal ?
    if abs(u) == 1:
        return 1
    # non-terminal
    # memoized ?
    r = cache.get(abs(u))""")],
  'R-TERM/sign-blind-terminal', 'FALSE copied as TRUE')
V('restore-loadjson-no-finally', ['C17', 'C09'], 'breaking',
  [(C, """    finally:
        if load_order:
            bdd.configure(
                reordering=old_reordering['reordering'])
    return roots""", """    finally:
        pass
    if load_order:
        bdd.configure(
            reordering=old_reordering['reordering'])
    return roots""")],
  'R-REORD/restore-on-error/dd._copy._load_json', 'F15 re-introduced')
V('make-node-check-after-incref', ['C17', 'C12'], 'breaking',
  [(C, """    if u.negated:
        raise AssertionError(u)
    # memoize
    cache[str(k)] = int(u)
    bdd.incref(u)""", """    # memoize
    cache[str(k)] = int(u)
    bdd.incref(u)
    if u.negated:
        raise AssertionError(u)""")],
  'R-PAIR/temporaries-raise-after-incref', 'refused record keeps its count')
V('loader-release-recursive', 'C19', 'breaking',
  [(C, "            bdd.decref(u, _direct=True)",
       "            bdd.decref(u, recursive=True)")],
  'R-CYTS/loader-release-not-direct', 'the temporary is never returned in the C back ends')
V('dddmp-auxids-overwrite', 'C16', 'breaking',
  [(D, "        self.aux_var_ids = p[2]", "        self.permuted_var_ids = p[2]")],
  'R-FORMAT/header-field-two-writers', 'copy-paste in a grammar action')
