"""Variant corpus for the self-validation (see selftest.py).

Each entry: id, props (ids whose check must react / stay silent), kind
('breaking' | 'benign'), edits [(file, old, new)], expect (fragment of the
finding key for breaking variants), note.
"""
VARIANTS = []


def V(id, props, kind, edits, expect=None, note=''):
    if isinstance(props, str):
        props = [props]
    VARIANTS.append(dict(id=id, props=props, kind=kind, edits=edits,
                         expect=expect, note=note))


B = 'dd/bdd.py'
A = 'dd/autoref.py'

# ---------------------------------------------------------------- R-OPTAB
V('optab-or-as-implies', 'C01', 'breaking',
  [(B, "return self.ite(u, 1, v)\n        elif op in ('and',",
       "return self.ite(u, v, 1)\n        elif op in ('and',")],
  "R-OPTAB/alias/dd.bdd.BDD.apply", 'or computed as implies')
V('optab-alias-moved', 'C01', 'breaking',
  [(B, "elif op in ('=>', '->', 'implies'):",
       "elif op in ('=>', 'implies'):"),
   (B, "elif op in ('<=>', '<->', 'equiv'):",
       "elif op in ('<=>', '<->', '->', 'equiv'):")],
  "R-OPTAB/alias/dd.bdd.BDD.apply/'->'", "'->' moved to the equiv group")
V('optab-diff-wrong', 'C01', 'breaking',
  [(B, "return self.ite(u, -v, -1)", "return self.ite(v, -u, -1)")],
  "R-OPTAB/alias/dd.bdd.BDD.apply", 'diff with swapped operands')
V('optab-forall-kind', ['C01', 'C03'], 'breaking',
  [(B, """            return self.quantify(
                v, qvars,
                forall=True)""", """            return self.quantify(
                v, qvars,
                forall=False)""")],
  "R-OPTAB/alias/dd.bdd.BDD.apply", r'\A quantifies existentially')
V('optab-le-reversed', 'C01', 'breaking',
  [(A, "return (other | ~ self) == self.bdd.true",
       "return (self | ~ other) == self.bdd.true")],
  "R-OPTAB/method/dd.autoref.Function.__le__", '<= reversed')
V('optab-lt-nonstrict', 'C01', 'breaking',
  [(A, "return self <= other and self != other",
       "return self <= other")],
  "R-OPTAB/method/dd.autoref.Function.__lt__", '< not strict')
V('optab-ite-terminal', 'C01', 'breaking',
  [(B, """        if g == 1:
            return u
        elif g == -1:
            return v
        # g is non-terminal
        # already computed ?
        r = (g, u, v)""", """        if g == 1:
            return u
        elif g == -1:
            return u
        # g is non-terminal
        # already computed ?
        r = (g, u, v)""")],
  "R-OPTAB/ite-terminal", 'ite(false, u, v) returns u')
V('vocab-alias-dropped', 'C01', 'breaking',
  [('dd/_abc.py', "    '<->',\n", "")],
  "R-VOCAB/missing", "'<->' removed from the vocabulary")
V('vocab-arity-swapped', ['C01'], 'breaking',
  [('dd/_utils.py', """    elif op in operators['binary']:
        if v is None:
            raise ValueError(
                '`v is None`')""", """    elif op in operators['binary']:
        if v is not None and w is None:
            return
        if v is None:
            raise ValueError(
                '`v is None`')""")],
  None, 'benign restructuring of the arity check')
VARIANTS[-1]['kind'] = 'benign'
V('optab-benign-new-spelling', 'C01', 'benign',
  [(B, "elif op in ('#', 'xor', '^'):", "elif op in ('#', 'xor', '^', '!='):")],
  None, 'an extra spelling in one chain only is not a violation')
V('optab-benign-local', 'C01', 'benign',
  [(B, "return self.ite(u, v, -1)\n        elif op in ('#'",
       "r = self.ite(u, v, -1)\n            return r\n        elif op in ('#'")],
  None, 'result through a local')
V('optab-mdd-xor', 'C15', 'breaking',
  [('dd/mdd.py', "return self.ite(u, -v, v)", "return self.ite(u, v, -v)")],
  "R-OPTAB/alias/dd.mdd.MDD.apply", 'MDD xor computed as equiv')
V('optab-cudd-implies', 'C19', 'breaking',
  [('dd/cudd.pyx', """            r = Cudd_bddIte(
                mgr, u.node, v.node, Cudd_ReadOne(mgr))
        elif op in ('<=>', '<->', 'equiv'):""", """            r = Cudd_bddIte(
                mgr, v.node, u.node, Cudd_ReadOne(mgr))
        elif op in ('<=>', '<->', 'equiv'):""")],
  "R-OPTAB/alias/dd.cudd.BDD.apply", 'cudd implies reversed')
