"""A small interpreter for guard-like functions over finite models.

Several properties hinge on short functions that only compare, test and
assign: the reordering context, the request for reordering, the reference
counters, the level checks.  Whether such a function does the right thing
does not depend on how its conditions are written (De Morgan, early
returns, local aliases, conditional expressions), so the rules do not
match their text: they run the function's statements in this interpreter
for every state of a small model and compare the outcome - returned
value, raised exception, final state - with what the property requires.

Nothing of the repository is executed: the interpreter knows assignments
(names, attributes, subscripts), `if`, `return`, `raise`, comparisons,
Boolean operators, conditional expressions, `abs`/`len`/`min`/`max`/
`isinstance`/`dict.get`, and treats logging and warnings as effects.
Anything else raises `Unknown`, and the rule's verdict is `undecided`.
"""
import ast

from . import astutil as au


class Unknown(Exception):
    pass


class Returned(Exception):
    def __init__(self, value):
        self.value = value


class Raised(Exception):
    def __init__(self, name, node=None):
        self.name = name
        self.node = node


class _Break(Exception):
    pass


class _GeneratorExit(Exception):
    pass


class _Continue(Exception):
    pass


class Sym:
    """An opaque object (a manager, an exception class) that can only be
    compared for identity."""

    def __init__(self, name, attrs=None):
        self.name = name
        self.attrs = attrs      # None, or the attributes of the object

    def __repr__(self):
        return f'<{self.name}>'


_KNOWN_TYPES = {
    'int': int, 'bool': bool, 'str': str, 'dict': dict,
    'list': list, 'tuple': tuple, 'set': (set, frozenset),
    'frozenset': frozenset, 'float': float,
    'Mapping': dict, 'MutableMapping': dict,
    'Set': (set, frozenset), 'MutableSet': set,
    'Sequence': (list, tuple, str), 'Sized': (
        dict, list, tuple, set, frozenset, str)}


EFFECT_CALLS = {'warn', 'info', 'debug', 'warning', 'error', 'getLogger',
                'print'}


_BINOP_METHODS = {
    ast.BitAnd: '__and__', ast.BitOr: '__or__', ast.BitXor: '__xor__',
    ast.Add: '__add__', ast.Sub: '__sub__', ast.Mult: '__mul__',
    ast.LShift: '__lshift__', ast.RShift: '__rshift__'}


class Machine:
    def __init__(self, env, stubs=None, resolver=None):
        self.env = env            # 'a', 'self.b.c' -> value
        self.stubs = stubs if stubs is not None else {}
        self.effects = []
        self.steps = 0
        self.resolver = resolver  # name -> value of a module global
        self.yields = None        # list, while a generator body runs
        self.receiver = None

    # ------------------------------------------------------------ values
    def key(self, e):
        ch = au.chain(e)
        return '.'.join(ch) if ch else None

    def ev(self, e):
        self.steps += 1
        if self.steps > 20000:
            raise Unknown('step limit')
        if isinstance(e, ast.Constant):
            return e.value
        if isinstance(e, ast.Name):
            if e.id in self.env:
                return self.env[e.id]
            if e.id in ('True', 'False', 'None'):
                return {'True': True, 'False': False, 'None': None}[e.id]
            if self.resolver is not None:
                try:
                    return self.resolver(e.id)
                except KeyError:
                    pass
            if e.id in self.SAFE and e.id not in self.stubs:
                return self.SAFE[e.id]
            raise Unknown(f'name {e.id}')
        if isinstance(e, ast.Attribute):
            k = self.key(e)
            if k is not None and k in self.env:
                return self.env[k]
            try:
                base = self.ev(e.value)
            except Unknown:
                base = None
            if isinstance(base, Sym) and base.attrs is not None and \
                    e.attr in base.attrs:
                return base.attrs[e.attr]
            # a bound method of a container, used as a value
            # (`key=sizes.get`)
            for ty, names in self.METHODS.items():
                if type(base) is ty and e.attr in names and e.attr in (
                        'get', 'index', 'count', 'lower', 'upper', '__contains__',
                        'strip', 'issubset', 'issuperset', 'isdisjoint'):
                    return getattr(base, e.attr)
            # a property of an object of a class of the program
            if isinstance(base, Sym) and getattr(base, 'cls', None):
                meth = self.method_of(base, e.attr)
                if meth is not None and any(
                        au.src(d) == 'property'
                        for d in meth[1].decorator_list):
                    return self.apply_callable(meth, [base])
            elif isinstance(base, Sym) and getattr(
                    self.stubs, 'is_property', None) and \
                    self.stubs.is_property(e.attr):
                self.receiver = base
                return self.stubs[e.attr](self, None, [], {})
            # a method of the model object, used as a value
            # (`starmap(self.ite, ...)`)
            if isinstance(base, Sym) and e.attr in self.stubs:
                return ('method', e.attr, base)
            if self.resolver is not None and hasattr(
                    self.resolver, 'chain'):
                ch = au.chain(e)
                if ch:
                    try:
                        return self.resolver.chain(ch)
                    except KeyError:
                        pass
            raise Unknown(f'attribute {au.src(e)}')
        if isinstance(e, ast.Subscript):
            c = self.ev(e.value)
            if isinstance(e.slice, ast.Slice):
                if not isinstance(c, (list, tuple, str)):
                    raise Unknown('slice of ' + type(c).__name__)
                lo, hi, st = (
                    self.ev(x) if x is not None else None
                    for x in (e.slice.lower, e.slice.upper, e.slice.step))
                return c[lo:hi:st]
            k = self.ev(e.slice)
            if isinstance(c, dict):
                import collections
                if isinstance(c, collections.defaultdict):
                    return c[k]
                if k not in c:
                    raise Raised('KeyError', e)
                return c[k]
            if isinstance(c, (tuple, list)):
                try:
                    return c[k]
                except (IndexError, TypeError):
                    raise Raised('IndexError', e)
            raise Unknown(f'subscript of {type(c).__name__}')
        if isinstance(e, ast.Tuple):
            return tuple(self.elements(e.elts))
        if isinstance(e, ast.List):
            return list(self.elements(e.elts))
        if isinstance(e, ast.Set):
            return set(self.elements(e.elts))
        if isinstance(e, ast.Dict):
            out = dict()
            for k, v in zip(e.keys, e.values):
                if k is None:
                    out.update(self.ev(v))
                else:
                    out[self.ev(k)] = self.ev(v)
            return out
        if isinstance(e, (ast.ListComp, ast.SetComp, ast.DictComp,
                          ast.GeneratorExp)):
            return self.comprehension(e)
        if isinstance(e, ast.JoinedStr):
            # a message: its text when every part is a plain value,
            # an opaque text otherwise
            parts = []
            for v in e.values:
                if isinstance(v, ast.Constant):
                    parts.append(str(v.value))
                    continue
                if v.format_spec is not None or v.conversion != -1:
                    return Sym('text')
                try:
                    x = self.ev(v.value)
                except Unknown:
                    return Sym('text')
                if isinstance(x, bool) or x is None or isinstance(
                        x, (int, str)):
                    parts.append(str(x))
                else:
                    return Sym('text')
            return ''.join(parts)
        if isinstance(e, ast.Starred):
            raise Unknown('starred')
        if isinstance(e, ast.UnaryOp):
            v = self.ev(e.operand)
            if isinstance(v, Sym) and getattr(v, 'cls', None):
                # an object of a class of the program: its own method
                name = {ast.Invert: '__invert__', ast.USub: '__neg__',
                        ast.UAdd: '__pos__'}.get(type(e.op))
                if name is None:
                    return not self.truth(v)
                meth = self.method_of(v, name)
                if meth is None:
                    raise Unknown(au.src(e))
                return self.apply_callable(meth, [v])
            if isinstance(e.op, ast.Not):
                if isinstance(v, Sym):
                    raise Unknown(au.src(e))
                return not v
            if isinstance(e.op, ast.USub):
                if isinstance(v, bool) or not isinstance(v, (int, float)):
                    if isinstance(v, (Sym, tuple)):
                        raise Unknown(au.src(e))
                    raise Raised('TypeError', e)
                return -v
            if isinstance(e.op, ast.UAdd) and isinstance(
                    v, (int, float)):
                return +v
            if isinstance(e.op, ast.Invert) and isinstance(v, int):
                return ~v
            raise Unknown(au.src(e))
        if isinstance(e, ast.BinOp):
            a, b = self.ev(e.left), self.ev(e.right)
            if isinstance(a, Sym) or isinstance(b, Sym):
                # an object of a class of the program: its own operator
                # method (reflected operators are not modelled)
                name = _BINOP_METHODS.get(type(e.op))
                meth = self.method_of(a, name) if (
                    name and isinstance(a, Sym)) else None
                if meth is not None:
                    return self.apply_callable(meth, [a, b])
                raise Unknown(au.src(e))
            try:
                if isinstance(e.op, ast.Add):
                    return a + b
                if isinstance(e.op, ast.Sub):
                    return a - b
                if isinstance(e.op, ast.Mult):
                    return a * b
                if isinstance(e.op, ast.BitOr):
                    return a | b
                if isinstance(e.op, ast.BitAnd):
                    return a & b
                if isinstance(e.op, ast.Pow) and isinstance(
                        b, int) and -64 < b < 64 and isinstance(
                            a, (int, float)) and (a != 0 or b >= 0):
                    return a ** b
                if isinstance(e.op, ast.Div) and b:
                    return a / b
                if isinstance(e.op, ast.FloorDiv) and b:
                    return a // b
                if isinstance(e.op, ast.Mod) and b and not isinstance(
                        a, str):
                    return a % b
                if isinstance(e.op, ast.BitXor):
                    return a ^ b
                if isinstance(e.op, (ast.FloorDiv, ast.Mod)) and \
                        isinstance(b, int) and not b:
                    raise Raised('ZeroDivisionError', e)
            except TypeError:
                raise Raised('TypeError', e)
            raise Unknown(au.src(e))
        if isinstance(e, ast.BoolOp):
            if isinstance(e.op, ast.And):
                r = True
                for v in e.values:
                    r = self.ev(v)
                    if not self.truth(r):
                        return r
                return r
            r = False
            for v in e.values:
                r = self.ev(v)
                if self.truth(r):
                    return r
            return r
        if isinstance(e, ast.IfExp):
            return self.ev(e.body) if self.truth(
                self.ev(e.test)) else self.ev(e.orelse)
        if isinstance(e, ast.Compare):
            left = self.ev(e.left)
            for op, c in zip(e.ops, e.comparators):
                right = self.ev(c)
                try:
                    if isinstance(op, ast.Lt):
                        ok = left < right
                    elif isinstance(op, ast.LtE):
                        ok = left <= right
                    elif isinstance(op, ast.Gt):
                        ok = left > right
                    elif isinstance(op, ast.GtE):
                        ok = left >= right
                    elif isinstance(op, (ast.Eq, ast.NotEq)) and \
                            isinstance(left, Sym) and self.method_of(
                                left, '__eq__') is not None:
                        # (`__ne__` of the class, when it has one, is not
                        # consulted: undecided rather than guessed)
                        if isinstance(op, ast.NotEq) and self.method_of(
                                left, '__ne__') is not None:
                            raise Unknown(au.src(e))
                        ok = bool(self.apply_callable(self.method_of(
                            left, '__eq__'), [left, right]))
                        if isinstance(op, ast.NotEq):
                            ok = not ok
                    elif isinstance(op, ast.Eq):
                        ok = left == right
                    elif isinstance(op, ast.NotEq):
                        ok = left != right
                    elif isinstance(op, (ast.In, ast.NotIn)) and \
                            isinstance(right, Sym) and self.method_of(
                                right, '__contains__') is not None:
                        ok = bool(self.apply_callable(self.method_of(
                            right, '__contains__'), [right, left]))
                        if isinstance(op, ast.NotIn):
                            ok = not ok
                    elif isinstance(op, (ast.In, ast.NotIn)):
                        if isinstance(right, Sym):
                            # membership in an opaque object: by the
                            # model of its `__contains__`, if any
                            if '__contains__' not in self.stubs:
                                raise Unknown(au.src(e))
                            self.receiver = right
                            ok = bool(self.stubs['__contains__'](
                                self, e, [left], {}))
                        else:
                            ok = left in right
                        if isinstance(op, ast.NotIn):
                            ok = not ok
                    elif isinstance(op, (ast.Is, ast.IsNot)):
                        # numbers, strings and tuples that are equal need
                        # not be the same object (CPython shares only
                        # small integers): the model takes them to be
                        # distinct objects
                        values = (int, float, str, tuple, frozenset)
                        tagged = (('class',), ('closure',), ('lambda',),
                                  ('builtin',), ('method',))
                        if isinstance(left, tuple) and left[:1] in tagged \
                                or isinstance(right, tuple) and \
                                right[:1] in tagged:
                            # classes and functions of the program are
                            # objects with an identity
                            ok = left is right
                        elif isinstance(left, values) and isinstance(
                                right, values) and not isinstance(
                                    left, bool) and not isinstance(
                                        right, bool):
                            ok = False
                        else:
                            ok = left is right
                        if isinstance(op, ast.IsNot):
                            ok = not ok
                    else:
                        raise Unknown(au.src(e))
                except TypeError:
                    raise Raised('TypeError', e)
                if not ok:
                    return False
                left = right
            return True
        if isinstance(e, ast.Call):
            return self.call(e)
        if isinstance(e, ast.Lambda):
            return ('lambda', e, dict(self.env), self.resolver)
        raise Unknown(type(e).__name__)

    def comprehension(self, e):
        if isinstance(e, ast.GeneratorExp):
            return self.generator(e)
        saved = dict(self.env)
        out = []

        def rec(k):
            if k == len(e.generators):
                if isinstance(e, ast.DictComp):
                    out.append((self.ev(e.key), self.ev(e.value)))
                else:
                    out.append(self.ev(e.elt))
                return
            g = e.generators[k]
            for item in self.iterate(self.ev(g.iter)):
                self.store(g.target, item)
                if all(self.truth(self.ev(c)) for c in g.ifs):
                    rec(k + 1)
        try:
            rec(0)
        finally:
            # comprehension variables do not leak
            for g in e.generators:
                for x in ast.walk(g.target):
                    if isinstance(x, ast.Name):
                        if x.id in saved:
                            self.env[x.id] = saved[x.id]
                        else:
                            self.env.pop(x.id, None)
        if isinstance(e, ast.ListComp):
            return out
        if isinstance(e, ast.SetComp):
            return set(out)
        if isinstance(e, ast.DictComp):
            return dict(out)
        return out          # a generator, materialised

    def generator(self, e):
        """A generator expression: its first iterable is evaluated now,
        everything else when the elements are asked for, in a scope of
        its own that sees the variables of the enclosing function."""
        first = self.iterate(self.ev(e.generators[0].iter))
        sub = Machine(dict(self.env), self.stubs, self.resolver)
        outer = self

        def rec(k, items):
            g = e.generators[k]
            for item in items:
                sub.steps = 0
                sub.store(g.target, item)
                if all(sub.truth(sub.ev(c)) for c in g.ifs):
                    if k + 1 == len(e.generators):
                        v = sub.ev(e.elt)
                        for key, val in sub.env.items():
                            if key.startswith('self.'):
                                outer.env[key] = val
                        yield v
                    else:
                        yield from rec(k + 1, sub.iterate(
                            sub.ev(e.generators[k + 1].iter)))
        return rec(0, first)

    def iterate(self, v):
        if hasattr(v, '__next__'):
            # an iterator (the lines of a file): handed out lazily, so
            # that a second loop continues where the first one stopped
            return v
        if isinstance(v, Sym):
            # an object of the program: its `__iter__`
            meth = self.method_of(v, '__iter__')
            if meth is not None:
                return self.iterate(self.apply_callable(meth, [v]))
            if getattr(v, 'cls', None) is None and \
                    '__iter__' in self.stubs:
                self.receiver = v
                return self.iterate(
                    self.stubs['__iter__'](self, None, [], {}))
            raise Unknown('iteration over an object')
        if isinstance(v, (set, frozenset)):
            # the order in which a set hands out its elements is not
            # specified: the model uses one that is not the sorted one,
            # so a result that depends on it shows
            try:
                return sorted(v, reverse=True)
            except TypeError:
                return list(v)
        if isinstance(v, (dict, list, tuple, range, str)):
            return list(v)
        if isinstance(v, (type({}.items()), type({}.keys()),
                          type({}.values()))):
            return list(v)
        try:
            return list(v)
        except TypeError:
            raise Unknown(f'iteration over {type(v).__name__}')

    SAFE = {'set': set, 'dict': dict, 'list': list, 'tuple': tuple,
            'frozenset': frozenset, 'sorted': sorted, 'enumerate':
            lambda *a, **k: list(enumerate(*a, **k)), 'zip':
            lambda *a: list(zip(*a)), 'range': range, 'len': len,
            'any': any, 'all': all, 'min': min, 'max': max, 'abs': abs,
            'int': int, 'str': str, 'bool': bool, 'sum': sum,
            'reversed': lambda x: list(reversed(x)), 'iter': iter,
            'next': next, 'bin': bin, 'divmod': divmod, 'round': round,
            'pow': pow}
    METHODS = {
        dict: {'items', 'keys', 'values', 'get', 'pop', 'setdefault',
               'update', 'copy', 'clear', 'popitem'},
        set: {'add', 'update', 'discard', 'remove', 'issubset',
              'issuperset', 'difference', 'union', 'intersection',
              'difference_update', 'intersection_update', 'copy', 'pop',
              'isdisjoint', 'clear'},
        frozenset: {'issubset', 'issuperset', 'difference', 'union',
                    'intersection', 'isdisjoint'},
        list: {'append', 'extend', 'index', 'copy', 'pop', 'sort',
               'reverse', 'insert'},
        tuple: {'index', 'count'},
        str: {'lower', 'upper', 'startswith', 'endswith', 'format',
              'join', 'split', 'strip', 'lstrip', 'rstrip', 'zfill',
              'replace', 'isdigit', 'find', 'count'},
    }

    def apply_builtin(self, name, args, kw):
        import itertools
        import functools
        import operator
        import bisect
        call = lambda g: (lambda *a: self.apply_callable(g, list(a)))
        its = lambda xs: [self.iterate(x) for x in xs]
        try:
            if name == 'itertools.starmap':
                g, xs = args
                return iter([self.apply_callable(g, list(t))
                             for t in self.iterate(xs)])
            if name == 'itertools.filterfalse':
                g, xs = args
                if g is None:
                    return iter([x for x in self.iterate(xs) if not x])
                return (x for x in self.iterate(xs)
                        if not self.apply_callable(g, [x]))
            if name == 'itertools.chain':
                return itertools.chain(*its(args))
            if name == 'itertools.product':
                return itertools.product(*its(args), **kw)
            if name == 'itertools.pairwise':
                return itertools.pairwise(self.iterate(args[0]))
            if name == 'itertools.permutations':
                return itertools.permutations(self.iterate(args[0]),
                                              *args[1:])
            if name == 'itertools.combinations':
                return itertools.combinations(self.iterate(args[0]),
                                              *args[1:])
            if name == 'itertools.repeat':
                return itertools.repeat(*args)
            if name == 'functools.reduce':
                g, xs = args[0], self.iterate(args[1])
                return functools.reduce(call(g), xs, *args[2:])
            if name == 'operator.itemgetter':
                return operator.itemgetter(*args)
            if name.startswith('operator.'):
                return getattr(operator, name.split('.')[1])(*args)
            if name.startswith('bisect.'):
                return getattr(bisect, name.split('.')[1])(*args, **kw)
            if name == 'collections.defaultdict':
                import collections
                if args and not callable(args[0]):
                    raise Unknown('defaultdict of a model value')
                return collections.defaultdict(*args)
            if name == 'collections.OrderedDict':
                return dict(*args, **kw)
        except (TypeError, ValueError, KeyError, IndexError) as ex:
            raise Raised(type(ex).__name__)
        raise Unknown(f'call {name}')

    def apply_callable(self, f, args, kw=None):
        if isinstance(f, tuple) and f and f[0] == 'method':
            self.receiver = f[2]
            return self.stubs[f[1]](self, None, list(args), kw or {})
        if isinstance(f, tuple) and f and f[0] == 'builtin':
            return self.apply_builtin(f[1], args, kw or {})
        if isinstance(f, tuple) and f and f[0] == 'class':
            return self.instantiate(f, args, kw or {})
        if isinstance(f, tuple) and f and f[0] == 'lambda':
            node, env, resolver = f[1], dict(f[2]), f[3]
            a = node.args
            params = [x.arg for x in a.posonlyargs + a.args]
            if len(args) > len(params) or a.vararg or a.kwarg:
                raise Unknown('lambda arguments')
            for p, d in zip(params[len(params) - len(a.defaults):],
                            a.defaults):
                env[p] = Machine(dict(f[2]), self.stubs, resolver).ev(d)
            for p, v in zip(params, args):
                env[p] = v
            for k, v in (kw or {}).items():
                env[k] = v
            if any(p not in env for p in params):
                raise Raised('TypeError')
            sub = Machine(env, self.stubs, resolver)
            sub.steps = self.steps
            return sub.ev(node.body)
        if isinstance(f, tuple) and f and f[0] == 'closure' and any(
                au.src(d).rsplit('.', 1)[-1] == 'contextmanager'
                for d in f[1].decorator_list):
            # `@contextlib.contextmanager`: the body runs inside the
            # `with` statement that uses the result (see `stmt`)
            return ('ctxgen', f, list(args), dict(kw or {}))
        if isinstance(f, tuple) and f and f[0] == 'closure':
            fn = f[1]
            resolver = f[2] if len(f) > 2 and f[2] is not None \
                else self.resolver
            defenv = f[3] if len(f) > 3 else None
            # a nested function sees the variables of the function it
            # was defined in; a module-level one only its globals
            if defenv is not None:
                env = dict(defenv)
                for k, v in self.env.items():
                    if k.startswith('self.') or k == 'self':
                        env[k] = v
            else:
                env = dict(self.env) if len(f) <= 2 else dict()
                if len(f) > 2:
                    for k, v in self.env.items():
                        if k.startswith('self.'):
                            env.setdefault(k, v)
            a = fn.args
            params = [x.arg for x in a.posonlyargs + a.args]
            for p, d in zip(params[len(params) - len(a.defaults):],
                            a.defaults):
                env[p] = Machine(dict(), self.stubs, resolver).ev(d)
            for p, v in zip(params, args):
                env[p] = v
            if a.vararg is not None:
                env[a.vararg.arg] = tuple(args[len(params):])
            elif len(args) > len(params):
                raise Raised('TypeError')
            named = set(params) | {x.arg for x in a.kwonlyargs}
            extra = dict()
            for k, v in (kw or {}).items():
                if k in named:
                    env[k] = v
                else:
                    extra[k] = v
            if a.kwarg is not None:
                env[a.kwarg.arg] = extra
            elif extra:
                raise Raised('TypeError')
            sub = Machine(env, self.stubs, resolver)
            sub.steps = self.steps
            is_gen = getattr(fn, '_dd_is_gen', None)
            if is_gen is None:
                is_gen = fn._dd_is_gen = any(
                    isinstance(x, (ast.Yield, ast.YieldFrom))
                    for x in au.walk_no_defs(fn))
            if is_gen:
                # a generator function: its body is run now and what it
                # yields is handed out afterwards (the elements are the
                # same; effects of the body happen earlier than in
                # CPython, which no model relies on)
                sub.yields = []
            try:
                sub.run(fn.body)
                if is_gen:
                    return iter(sub.yields)
            except Returned as r:
                if is_gen:
                    return iter(sub.yields)
                return r.value
            finally:
                # closures see (and may change) the attributes of self
                for k, v in sub.env.items():
                    if k.startswith('self.'):
                        self.env[k] = v
                        if defenv is not None:
                            defenv[k] = v
            return None
        if callable(f):
            try:
                return f(*args, **(kw or {}))
            except (TypeError, ValueError, KeyError, IndexError) as ex:
                raise Raised(type(ex).__name__)
        raise Unknown('not callable')

    def keywords(self, e):
        kw = dict()
        for k in e.keywords:
            if k.arg is None:
                v = self.ev(k.value)
                if not isinstance(v, dict):
                    raise Unknown('** of a non-dictionary')
                kw.update(v)
            else:
                kw[k.arg] = self.ev(k.value)
        return kw

    def instantiate(self, cls, args, kw):
        """An instance of a class of the program: an object whose
        attributes live in a dictionary; `__init__` is interpreted."""
        node, resolver = cls[1], cls[2]
        own_init = any(isinstance(st, ast.FunctionDef)
                       and st.name == '__init__' for st in node.body)
        if node.bases and not own_init and not all(
                au.src(b) in ('object',) for b in node.bases):
            # (with its own `__init__` the object is made by the class
            # itself; a method it inherits is not found and leaves the
            # call undecided)
            raise Unknown(f'class {node.name} with base classes')
        obj = Sym(f'{node.name} object', dict())
        obj.cls = cls
        init = self.method_of(obj, '__init__')
        if init is not None:
            self.apply_callable(init, [obj] + list(args), kw)
        elif args or kw:
            raise Raised('TypeError')
        return obj

    def _opaque(self, e):
        raise Unknown(au.src(e))

    def truth(self, v):
        """Truth value as `if` takes it: an object of a class of the
        program is asked through `__bool__` / `__len__`."""
        if isinstance(v, Sym) and getattr(v, 'cls', None):
            meth = self.method_of(v, '__bool__')
            if meth is not None:
                return bool(self.apply_callable(meth, [v]))
            meth = self.method_of(v, '__len__')
            if meth is not None:
                return self.apply_callable(meth, [v]) != 0
            if v.cls[1].bases and not all(
                    au.src(b) == 'object' for b in v.cls[1].bases):
                # (a base class may define either)
                for b in v.cls[1].bases:
                    bc = self.program_class(b)
                    if bc is None:
                        raise Unknown('truth value of an object whose '
                                      'base class is not in the program')
                    for st in bc[1].body:
                        if isinstance(st, ast.FunctionDef) and st.name in (
                                '__bool__', '__len__'):
                            raise Unknown('truth value by a base class')
                    if bc[1].bases:
                        raise Unknown('truth value by a base class')
            return True
        return bool(v)

    def program_class(self, expr):
        """The class of the program that `expr` names, or None."""
        try:
            v = self.ev(expr)
        except (Unknown, Raised):
            return None
        if isinstance(v, tuple) and v[:1] == ('class',):
            return v
        return None

    def instance_of(self, v, cls, what):
        """`isinstance(v, cls)` for a class of the program: objects
        made from that very class are; plain values are not; an object
        of another class that has base classes is left undecided."""
        if isinstance(v, Sym):
            c = getattr(v, 'cls', None)
            if c is None:
                raise Unknown(f'isinstance(..., {what})')
            if c[1] is cls[1]:
                return True
            if any(au.src(b).rsplit('.', 1)[-1] == cls[1].name
                   for b in c[1].bases):
                raise Unknown(f'isinstance(..., {what})')
            return False
        if isinstance(v, tuple) and v[:1] in (
                ('closure',), ('lambda',), ('class',), ('ctxgen',)):
            raise Unknown(f'isinstance(..., {what})')
        return False

    def method_of(self, obj, name):
        cls = getattr(obj, 'cls', None)
        if cls is None:
            return None
        for st in cls[1].body:
            if isinstance(st, ast.FunctionDef) and st.name == name:
                return ('closure', st, cls[2],
                        cls[3] if len(cls) > 3 else dict())
        return None

    def call(self, e):
        n = au.call_name(e)
        # a method of an object made by `instantiate`
        if isinstance(e.func, ast.Attribute):
            try:
                recv0 = self.ev(e.func.value)
            except (Unknown, Raised):
                recv0 = None
            if isinstance(recv0, Sym) and getattr(recv0, 'cls', None):
                meth = self.method_of(recv0, e.func.attr)
                if meth is not None:
                    args = self.elements(e.args)
                    kw = self.keywords(e)
                    return self.apply_callable(meth, [recv0] + args, kw)
                if not (recv0.attrs and e.func.attr in recv0.attrs):
                    # (a method the class inherits: not modelled)
                    raise Unknown(f'method {e.func.attr} of a base class')
        if n == 'hash' and isinstance(e.func, ast.Name) and \
                len(e.args) == 1 and not e.keywords:
            # CPython's hash of an integer is a fixed function of it
            # (-1 is never a hash: it becomes -2); of an object, that of
            # what its `__hash__` returns.  Strings are salted per run.
            v = self.ev(e.args[0])
            if isinstance(v, Sym):
                meth = self.method_of(v, '__hash__')
                if meth is None:
                    raise Unknown(au.src(e))
                v = self.apply_callable(meth, [v])
            if isinstance(v, int):
                return hash(v)
            raise Unknown(au.src(e))
        if n == 'hasattr' and len(e.args) == 2:
            obj = self.ev(e.args[0])
            name = self.ev(e.args[1])
            if isinstance(obj, Sym) and obj.attrs is not None and \
                    isinstance(name, str):
                return name in obj.attrs
            raise Unknown(au.src(e))
        if n in self.stubs and not (
                isinstance(e.func, ast.Name)
                and getattr(self.stubs, 'methods_only', False)
                and not self.stubs.explicit(n)):
            # (a bare name never means a method of the class: `rename(u,
            # self, d)` inside `BDD.rename` is the module's function)
            args = self.elements(e.args)
            kw = self.keywords(e)
            # (the object the method is called on, for stubs that
            # interpret a method of a class)
            self.receiver = recv0 if isinstance(
                e.func, ast.Attribute) else None
            return self.stubs[n](self, e, args, kw)
        if n in EFFECT_CALLS:
            self.effects.append(n)
            return None
        if n == 'abs' and len(e.args) == 1:
            return abs(self.ev(e.args[0]))
        if n == 'len' and len(e.args) == 1:
            v = self.ev(e.args[0])
            if isinstance(v, Sym) and self.method_of(
                    v, '__len__') is not None:
                return self.apply_callable(
                    self.method_of(v, '__len__'), [v])
            if isinstance(v, Sym):
                if '__len__' not in self.stubs:
                    raise Unknown(au.src(e))
                self.receiver = v
                return self.stubs['__len__'](self, e, [], {})
            return len(v)
        if n in ('min', 'max') and e.args and not e.keywords:
            vals = self.elements(e.args)
            if len(vals) == 1:
                vals = list(self.iterate(vals[0]))
            if not vals:
                raise Raised('ValueError', e)
            try:
                return min(vals) if n == 'min' else max(vals)
            except TypeError:
                raise Raised('TypeError', e)
        if n == 'isinstance' and len(e.args) == 2:
            v = self.ev(e.args[0])
            types = e.args[1].elts if isinstance(
                e.args[1], ast.Tuple) else [e.args[1]]
            known = _KNOWN_TYPES
            out = False
            for t in types:
                tn = au.src(t).rsplit('.', 1)[-1]
                if tn not in known:
                    own = self.program_class(t)
                    if own is None:
                        raise Unknown(au.src(e))
                    if self.instance_of(v, own, au.src(t)):
                        out = True
                    continue
                if isinstance(v, Sym):
                    # an object of a class of the program without base
                    # classes is none of the built-in types
                    c = getattr(v, 'cls', None)
                    if c is None or c[1].bases and any(
                            au.src(b).rsplit('.', 1)[-1] in known
                            for b in c[1].bases):
                        raise Unknown(au.src(e))
                    continue
                if isinstance(v, known[tn]):
                    out = True
            return out
        if n == 'get' and isinstance(e.func, ast.Attribute) and e.args:
            c = self.ev(e.func.value)
            if isinstance(c, dict):
                k = self.ev(e.args[0])
                d = self.ev(e.args[1]) if len(e.args) > 1 else None
                return c.get(k, d)
        if n == 'setdefault' and isinstance(
                e.func, ast.Attribute) and len(e.args) == 2:
            c = self.ev(e.func.value)
            if isinstance(c, dict):
                return c.setdefault(self.ev(e.args[0]), self.ev(e.args[1]))
        if n == 'pop' and isinstance(e.func, ast.Attribute) and e.args:
            c = self.ev(e.func.value)
            if isinstance(c, dict):
                k = self.ev(e.args[0])
                if k not in c:
                    if len(e.args) > 1:
                        return self.ev(e.args[1])
                    raise Raised('KeyError', e)
                return c.pop(k)
        # a local function, a safe builtin, a method of a container
        if isinstance(e.func, ast.Name):
            args = self.elements(e.args)
            kw = self.keywords(e)
            if e.func.id in self.env:
                return self.apply_callable(self.env[e.func.id], args, kw)
            if e.func.id in ('filter', 'map') and len(args) == 2:
                f, xs = args
                xs = self.iterate(xs)
                if e.func.id == 'map':
                    return [self.apply_callable(f, [x]) for x in xs]
                return [x for x in xs if self.apply_callable(f, [x])]
            if e.func.id in self.SAFE and any(
                    isinstance(a, Sym) for a in args):
                # a built-in applied to an object: through the method of
                # its class, or not at all
                a0 = args[0]
                name = {'int': '__int__', 'str': '__str__',
                        'abs': '__abs__', 'iter': '__iter__'}.get(
                            e.func.id)
                if e.func.id == 'bool' and len(args) == 1:
                    return self.truth(a0) if getattr(
                        a0, 'cls', None) else self._opaque(e)
                meth = self.method_of(a0, name) if (
                    name and len(args) == 1 and isinstance(a0, Sym)) \
                    else None
                if meth is not None:
                    return self.apply_callable(meth, [a0])
                if e.func.id in ('list', 'tuple', 'set', 'sorted',
                                 'enumerate', 'sum', 'any', 'all', 'min',
                                 'max', 'frozenset', 'reversed') and \
                        len(args) == 1 and not kw:
                    args = [self.iterate(a0)]
                elif e.func.id not in ('dict', 'zip', 'len', 'next', 'str'):
                    raise Unknown(au.src(e))
            if e.func.id in self.SAFE:
                try:
                    if 'key' in kw and isinstance(kw['key'], tuple):
                        fkey = kw['key']
                        kw = dict(kw)
                        kw['key'] = lambda *a: self.apply_callable(
                            fkey, list(a))
                    if e.func.id in ('list', 'tuple', 'enumerate', 'zip',
                                     'iter', 'reversed'):
                        args = [self.iterate(a) if isinstance(
                            a, (set, frozenset)) else a for a in args]
                    return self.SAFE[e.func.id](*args, **kw)
                except (TypeError, ValueError, KeyError) as ex:
                    raise Raised(type(ex).__name__, e)
        if isinstance(e.func, ast.Attribute):
            try:
                recv = self.ev(e.func.value)
            except Unknown:
                recv = None
                raise
            for ty, names in self.METHODS.items():
                if (type(recv) is ty or (ty is dict and isinstance(
                        recv, dict))) and e.func.attr in names:
                    args = self.elements(e.args)
                    kw = self.keywords(e)
                    try:
                        r = getattr(recv, e.func.attr)(*args, **kw)
                    except (KeyError, ValueError, TypeError,
                            IndexError) as ex:
                        raise Raised(type(ex).__name__, e)
                    if e.func.attr in ('items', 'keys', 'values'):
                        return list(r)
                    return r
        # a function held in a variable, a table entry, a module global
        try:
            fv = self.ev(e.func)
        except Unknown:
            fv = None
        if isinstance(fv, tuple) and fv and fv[0] in (
                'closure', 'lambda', 'builtin', 'method'):
            args = self.elements(e.args)
            kw = self.keywords(e)
            return self.apply_callable(fv, args, kw)
        if isinstance(fv, tuple) and fv and fv[0] == 'class':
            args = self.elements(e.args)
            kw = self.keywords(e)
            return self.instantiate(fv, args, kw)
        raise Unknown(f'call {n}')

    # -------------------------------------------------------- statements
    def store(self, t, v):
        if isinstance(t, ast.Name):
            self.env[t.id] = v
        elif isinstance(t, ast.Attribute):
            k = self.key(t)
            if k is not None and k in self.env:
                self.env[k] = v
                return
            try:
                base = self.ev(t.value)
            except Unknown:
                base = None
            if isinstance(base, Sym) and isinstance(base.attrs, dict):
                base.attrs[t.attr] = v
                return
            if k is None:
                raise Unknown(au.src(t))
            self.env[k] = v
        elif isinstance(t, ast.Subscript):
            c = self.ev(t.value)
            if not isinstance(c, dict):
                raise Unknown(au.src(t))
            c[self.ev(t.slice)] = v
        elif isinstance(t, (ast.Tuple, ast.List)):
            if isinstance(v, (set, frozenset, dict)) or not isinstance(
                    v, (tuple, list)):
                raise Unknown(au.src(t))
            stars = [k for k, x in enumerate(t.elts)
                     if isinstance(x, ast.Starred)]
            if len(stars) > 1:
                raise Unknown(au.src(t))
            if stars:
                k = stars[0]
                tail = len(t.elts) - k - 1
                if len(v) < len(t.elts) - 1:
                    raise Raised('ValueError', t)
                for x, y in zip(t.elts[:k], v[:k]):
                    self.store(x, y)
                self.store(t.elts[k].value, list(v[k:len(v) - tail]))
                if tail:
                    for x, y in zip(t.elts[k + 1:], v[len(v) - tail:]):
                        self.store(x, y)
                return
            if len(v) != len(t.elts):
                raise Raised('ValueError', t)
            for x, y in zip(t.elts, v):
                self.store(x, y)
        else:
            raise Unknown(au.src(t))

    def run(self, stmts):
        for s in stmts:
            self.stmt(s)

    def elements(self, elts):
        out = []
        for x in elts:
            if isinstance(x, ast.Starred):
                out.extend(self.iterate(self.ev(x.value)))
            else:
                out.append(self.ev(x))
        return out

    def stmt(self, s):
        if isinstance(s, ast.Expr):
            if isinstance(s.value, ast.Constant):
                return
            if isinstance(s.value, ast.Yield) and getattr(
                    self, 'yield_hook', None) is not None:
                hook, self.yield_hook = self.yield_hook, None
                hook(self.ev(s.value.value)
                     if s.value.value is not None else None)
                return
            if isinstance(s.value, (ast.Yield, ast.YieldFrom)):
                if self.yields is None:
                    raise Unknown('yield outside a generator function')
                if isinstance(s.value, ast.Yield):
                    self.yields.append(
                        self.ev(s.value.value)
                        if s.value.value is not None else None)
                else:
                    self.yields.extend(
                        self.iterate(self.ev(s.value.value)))
                return
            self.ev(s.value)
            return
        if isinstance(s, ast.Pass):
            return
        if isinstance(s, ast.Assign):
            v = self.ev(s.value)
            for t in s.targets:
                self.store(t, v)
            return
        if isinstance(s, ast.AnnAssign):
            if s.value is not None:
                self.store(s.target, self.ev(s.value))
            return
        if isinstance(s, ast.AugAssign):
            load = ast.fix_missing_locations(ast.copy_location(
                ast.BinOp(left=_as_load(s.target), op=s.op,
                          right=s.value), s))
            self.store(s.target, self.ev(load))
            return
        if isinstance(s, ast.If):
            self.run(s.body if self.truth(self.ev(s.test)) else s.orelse)
            return
        if isinstance(s, (ast.FunctionDef,)):
            self.env[s.name] = ('closure', s, self.resolver, self.env)
            return
        if isinstance(s, ast.ClassDef):
            self.env[s.name] = ('class', s, self.resolver, self.env)
            return
        if isinstance(s, ast.Import):
            for a in s.names:
                if a.name not in _STDLIB:
                    raise Unknown(f'import {a.name}')
                self.env[a.asname or a.name] = Sym(f'module {a.name}', {
                    k: ('builtin', f'{a.name}.{k}')
                    for k in _STDLIB[a.name]})
            return
        if isinstance(s, ast.For):
            broke = False
            for item in self.iterate(self.ev(s.iter)):
                self.store(s.target, item)
                try:
                    self.run(s.body)
                except _Break:
                    broke = True
                    break
                except _Continue:
                    continue
            if not broke:
                self.run(s.orelse)
            return
        if isinstance(s, ast.While):
            k = 0
            broke = False
            while self.truth(self.ev(s.test)):
                k += 1
                if k > 2000:
                    raise Unknown('loop limit')
                try:
                    self.run(s.body)
                except _Break:
                    broke = True
                    break
                except _Continue:
                    continue
            if not broke:
                self.run(s.orelse)
            return
        if isinstance(s, ast.Break):
            raise _Break()
        if isinstance(s, ast.Continue):
            raise _Continue()
        if isinstance(s, ast.Delete):
            for t in s.targets:
                if isinstance(t, ast.Subscript):
                    c = self.ev(t.value)
                    k = self.ev(t.slice)
                    if isinstance(c, dict):
                        if k not in c:
                            raise Raised('KeyError', s)
                        del c[k]
                        continue
                raise Unknown('del')
            return
        if isinstance(s, ast.Try):
            try:
                try:
                    self.run(s.body)
                except Raised as r:
                    for h in s.handlers:
                        if _catches(h, r.name):
                            if h.name:
                                self.env[h.name] = Sym(r.name)
                            prev = getattr(self, 'handling', None)
                            self.handling = r
                            try:
                                self.run(h.body)
                            finally:
                                self.handling = prev
                            break
                    else:
                        raise
                else:
                    self.run(s.orelse)
            finally:
                self.run(s.finalbody)
            return
        if isinstance(s, ast.With):
            # a context made by a `contextmanager` generator: its body is
            # run here, and the rest of this statement at its `yield`
            for k, item in enumerate(s.items):
                v = self.ev(item.context_expr) if k == 0 else None
                if k == 0 and isinstance(v, tuple) and v[:1] == ('ctxgen',):
                    rest = ast.With(items=s.items[1:], body=s.body) \
                        if len(s.items) > 1 else None
                    if rest is not None:
                        ast.copy_location(rest, s)

                    pending = []

                    def at_yield(value, item=item, rest=rest):
                        if item.optional_vars is not None:
                            self.store(item.optional_vars, value)
                        try:
                            if rest is not None:
                                self.stmt(rest)
                            else:
                                self.run(s.body)
                        except (Returned, _Break, _Continue) as ex:
                            # leaves the `with`: the generator is closed
                            # at its `yield` (its `finally` blocks run)
                            pending.append(ex)
                            raise _GeneratorExit()
                    clo = v[1]
                    fn = clo[1]
                    res = clo[2] if len(clo) > 2 and clo[2] is not None \
                        else self.resolver
                    env = dict(clo[3]) if len(clo) > 3 and \
                        clo[3] is not None else dict()
                    ps = [x.arg for x in fn.args.posonlyargs + fn.args.args]
                    env.update(zip(ps, v[2]))
                    env.update(v[3])
                    sub = Machine(env, self.stubs, res)
                    sub.yield_hook = at_yield
                    try:
                        sub.run(fn.body)
                    except Returned:
                        pass
                    except _GeneratorExit:
                        pass
                    if pending:
                        raise pending[0]
                    if sub.yield_hook is not None:
                        raise Raised('RuntimeError', s)
                    return
                break
            managers = []
            first_value = v if s.items else None
            for k, item in enumerate(s.items):
                v = first_value if k == 0 else self.ev(item.context_expr)
                entered = v
                if isinstance(v, Sym) and getattr(v, 'cls', None):
                    enter = self.method_of(v, '__enter__')
                    leave = self.method_of(v, '__exit__')
                    if enter is None or leave is None:
                        raise Unknown('object without __enter__/__exit__')
                    entered = self.apply_callable(enter, [v])
                    managers.append((v, leave))
                if item.optional_vars is not None:
                    self.store(item.optional_vars, entered)
            try:
                self.run(s.body)
            except Raised as r:
                # innermost first; a true result swallows the exception
                swallowed = False
                # the exception class, as the program names it
                etype = Sym(r.name)
                if self.resolver is not None:
                    try:
                        etype = self.resolver(r.name)
                    except KeyError:
                        pass
                for v, leave in reversed(managers):
                    if self.apply_callable(leave, [
                            v, etype, Sym(f'{r.name} instance'),
                            Sym('traceback')]):
                        swallowed = True
                        break
                if not swallowed:
                    raise
                return
            except (Returned, _Break, _Continue):
                for v, leave in reversed(managers):
                    self.apply_callable(leave, [v, None, None, None])
                raise
            for v, leave in reversed(managers):
                self.apply_callable(leave, [v, None, None, None])
            return
        if isinstance(s, ast.Return):
            raise Returned(self.ev(s.value) if s.value is not None
                           else None)
        if isinstance(s, ast.Raise):
            if s.exc is None and getattr(self, 'handling', None):
                # a bare `raise` in a handler: the exception being handled
                raise Raised(self.handling.name, s)
            raise Raised(au.raised_name(s) or '?', s)
        if isinstance(s, ast.Assert):
            if not self.truth(self.ev(s.test)):
                raise Raised('AssertionError', s)
            return
        if isinstance(s, ast.Match):
            subj = self.ev(s.subject)
            for c in s.cases:
                p = c.pattern
                if isinstance(p, ast.MatchClass) and not p.patterns \
                        and not p.kwd_patterns:
                    t = au.src(p.cls).rsplit('.', 1)[-1]
                    own = self.program_class(p.cls) \
                        if t not in _KNOWN_TYPES else None
                    if own is not None:
                        ok = self.instance_of(subj, own, au.src(p.cls))
                    elif t not in _KNOWN_TYPES or isinstance(subj, Sym) or (
                            isinstance(subj, tuple) and subj[:1] in (
                                ('closure',), ('lambda',), ('class',))):
                        raise Unknown(f'match {au.src(p.cls)}')
                    else:
                        ok = isinstance(subj, _KNOWN_TYPES[t])
                elif isinstance(p, ast.MatchValue):
                    ok = subj == self.ev(p.value)
                elif isinstance(p, ast.MatchSingleton):
                    ok = subj is p.value
                elif isinstance(p, ast.MatchAs) and p.pattern is None:
                    ok = True
                    if p.name:
                        self.env[p.name] = subj
                elif isinstance(p, ast.MatchOr) and all(
                        isinstance(q, ast.MatchValue) or (
                            isinstance(q, ast.MatchClass)
                            and not q.patterns and not q.kwd_patterns
                            and au.src(q.cls).rsplit('.', 1)[-1]
                            in _KNOWN_TYPES) for q in p.patterns):
                    if isinstance(subj, Sym):
                        c = getattr(subj, 'cls', None)
                        if c is None or c[1].bases and any(
                                au.src(b).rsplit('.', 1)[-1]
                                in _KNOWN_TYPES for b in c[1].bases):
                            raise Unknown('match on an opaque value')
                        # an object of a class of the program is none of
                        # the built-in types, and equal to no literal
                        # unless its class says so
                        if self.method_of(subj, '__eq__') is not None \
                                and any(isinstance(q, ast.MatchValue)
                                        for q in p.patterns):
                            raise Unknown('match on an opaque value')
                        ok = False
                    else:
                        ok = any(
                            subj == self.ev(q.value) if isinstance(
                                q, ast.MatchValue) else isinstance(
                                    subj, _KNOWN_TYPES[au.src(
                                        q.cls).rsplit('.', 1)[-1]])
                            for q in p.patterns)
                else:
                    raise Unknown('match pattern')
                if ok:
                    self.run(c.body)
                    return
            return
        raise Unknown(f'statement {type(s).__name__}')


_EXC_PARENTS = {
    'KeyError': {'LookupError'}, 'IndexError': {'LookupError'},
    'ZeroDivisionError': {'ArithmeticError'},
    'NotImplementedError': {'RuntimeError'},
    'FileNotFoundError': {'OSError'},
    'UnicodeDecodeError': {'ValueError'},
}


def _catches(handler, name):
    if handler.type is None:
        return True
    types = handler.type.elts if isinstance(
        handler.type, ast.Tuple) else [handler.type]
    for t in types:
        tn = au.src(t).rsplit('.', 1)[-1]
        if tn in ('Exception', 'BaseException') or tn == name or \
                tn in _EXC_PARENTS.get(name, ()):
            return True
    return False


def _as_load(t):
    """The target of an augmented assignment as an expression to read
    (only the outer node carries the Store context)."""
    if isinstance(t, ast.Name):
        return ast.copy_location(ast.Name(id=t.id, ctx=ast.Load()), t)
    if isinstance(t, ast.Attribute):
        return ast.copy_location(ast.Attribute(
            value=t.value, attr=t.attr, ctx=ast.Load()), t)
    if isinstance(t, ast.Subscript):
        return ast.copy_location(ast.Subscript(
            value=t.value, slice=t.slice, ctx=ast.Load()), t)
    raise Unknown('augmented assignment target')


_STDLIB = {
    'itertools': {'starmap', 'chain', 'product', 'pairwise', 'filterfalse',
                  'permutations', 'combinations', 'repeat'},
    'functools': {'reduce'},
    'operator': {'itemgetter', 'neg', 'not_', 'and_', 'or_', 'add', 'sub'},
    'bisect': {'bisect_left', 'bisect_right'},
    'collections': {'defaultdict', 'OrderedDict', 'deque'},
    'contextlib': {'contextmanager'},
}


class ModuleEnv:
    """Resolver of the globals of one module of the program: constants
    and tables are evaluated from their top-level assignment (once),
    functions become closures of the module, imported modules become
    objects whose attributes resolve in that module."""

    def __init__(self, program, modname, stubs=None, _cache=None,
                 fallback=None):
        self.program = program
        self.modname = modname
        if fallback is None and _cache is None:
            # constants that need more than expression evaluation
            # (`typing.Literal[...]` vocabularies): the constant resolver
            from . import consts
            cr = consts.ConstResolver(program)

            def fallback(mod, name):
                v = cr.resolve(mod, [name])
                if v is None or v[0] != 'const':
                    raise KeyError(name)
                return v[1]
        self.fallback = fallback   # (module, name) -> value | KeyError
        self.stubs = stubs if stubs is not None else {}
        self.cache = dict()
        self.modules = _cache if _cache is not None else dict()
        self.modules[modname] = self
        self.busy = set()

    def module(self, modname):
        if modname not in self.modules:
            if modname not in self.program.units:
                return None
            ModuleEnv(self.program, modname, self.stubs, self.modules,
                      self.fallback)
        return self.modules[modname]

    def chain(self, ch):
        """`pkg.mod.NAME` written out in full (after `import pkg.mod`)."""
        for k in range(len(ch) - 1, 0, -1):
            modname = '.'.join(ch[:k])
            if modname in self.program.units:
                # the module must be imported here under that name
                unit = self.program.units.get(self.modname)
                imported = any(
                    isinstance(s, ast.Import) and any(
                        a.name == modname and not a.asname
                        for a in s.names)
                    for s in unit.tree.body)
                if not imported:
                    raise KeyError('.'.join(ch))
                v = self.module(modname)(ch[k])
                for attr in ch[k + 1:]:
                    if isinstance(v, Sym) and v.attrs is not None and \
                            attr in v.attrs:
                        v = v.attrs[attr]
                    else:
                        raise KeyError('.'.join(ch))
                return v
        raise KeyError('.'.join(ch))

    def __call__(self, name):
        if name in self.cache:
            return self.cache[name]
        if name in self.busy:
            raise KeyError(name)
        unit = self.program.units.get(self.modname)
        if unit is None:
            raise KeyError(name)
        found = None
        for s in unit.tree.body:
            if isinstance(s, ast.Assign) and any(
                    isinstance(t, ast.Name) and t.id == name
                    for t in s.targets):
                found = s
            elif isinstance(s, ast.AnnAssign) and isinstance(
                    s.target, ast.Name) and s.target.id == name and \
                    s.value is not None:
                found = s
            elif isinstance(s, (ast.FunctionDef, ast.ClassDef)) and \
                    s.name == name:
                found = s
            elif isinstance(s, (ast.Import, ast.ImportFrom)):
                for a in s.names:
                    if (a.asname or a.name.split('.')[0]) == name:
                        found = (s, a)
        if found is None:
            raise KeyError(name)
        self.busy.add(name)
        try:
            if isinstance(found, tuple):
                s, a = found
                if isinstance(s, ast.Import):
                    target = a.name if a.asname else a.name.split('.')[0]
                    sub = self.module(target)
                else:
                    base = s.module or ''
                    sub = self.module(f'{base}.{a.name}' if base
                                      else a.name)
                    if sub is None and base:
                        # from module import name
                        owner = self.module(base)
                        if owner is None:
                            raise KeyError(name)
                        v = owner(a.name)
                        self.cache[name] = v
                        return v
                if sub is None:
                    lib = (a.name if isinstance(s, ast.Import)
                           else (s.module or ''))
                    if isinstance(s, ast.Import) and lib == 'logging':
                        # (the levels are numbers; the calls are effects)
                        v = Sym('module logging', {
                            'DEBUG': 10, 'INFO': 20, 'WARNING': 30,
                            'ERROR': 40, 'CRITICAL': 50})
                        self.cache[name] = v
                        return v
                    if isinstance(s, ast.Import) and lib == 'sys':
                        v = Sym('module sys', {'maxsize': 2 ** 63 - 1})
                        self.cache[name] = v
                        return v
                    if isinstance(s, ast.Import) and lib in _STDLIB:
                        v = Sym(f'module {lib}', {
                            k: ('builtin', f'{lib}.{k}')
                            for k in _STDLIB[lib]})
                        self.cache[name] = v
                        return v
                    if isinstance(s, ast.ImportFrom) and lib in _STDLIB \
                            and a.name in _STDLIB[lib]:
                        v = ('builtin', f'{lib}.{a.name}')
                        self.cache[name] = v
                        return v
                    raise KeyError(name)
                v = Sym(f'module {sub.modname}', _ModuleAttrs(sub))
            elif isinstance(found, ast.FunctionDef):
                v = ('closure', found, self)
            elif isinstance(found, ast.ClassDef):
                v = ('class', found, self)
            else:
                try:
                    v = Machine(dict(), self.stubs, self).ev(found.value)
                except (Unknown, Raised):
                    if self.fallback is None:
                        raise KeyError(name)
                    v = self.fallback(self.modname, name)
            self.cache[name] = v
            return v
        finally:
            self.busy.discard(name)


class _ModuleAttrs:
    def __init__(self, modenv):
        self.modenv = modenv

    def __contains__(self, name):
        try:
            self.modenv(name)
            return True
        except KeyError:
            return False

    def __getitem__(self, name):
        return self.modenv(name)


def run_generator(fn, env, stubs=None, resolver=None):
    """A generator function run to its end: -> ('yield', [values]) |
    ('raise', name), machine.  (What it yields before an exception is
    lost, as for a caller that collects into a list.)"""
    m = Machine(env, stubs, resolver)
    m.yields = []
    try:
        m.run(fn.body)
    except Returned:
        pass
    except Raised as r:
        return ('raise', r.name), m
    return ('yield', m.yields), m


def run_function(fn, env, stubs=None, resolver=None):
    """-> ('return', value) | ('raise', name) | ('fall', None), machine"""
    m = Machine(env, stubs, resolver)
    try:
        m.run(fn.body if hasattr(fn, 'body') else fn)
    except Returned as r:
        return ('return', r.value), m
    except Raised as r:
        return ('raise', r.name), m
    return ('fall', None), m
