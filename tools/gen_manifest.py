#!/venv/bin/python
"""Regenerate /verif/MANIFEST.json from the property registry."""
import json
import os
import sys

HERE = os.path.dirname(os.path.dirname(os.path.abspath(__file__)))
sys.path.insert(0, HERE)
from ddverif import props  # noqa: E402

ALL = [json.loads(line)['id'] for line in open(
    os.path.join(HERE, 'properties.jsonl'))]
BASELINE = (
    'cd /repo && /venv/bin/python -m pytest -ra -q -p no:cacheprovider '
    '--timeout=900 --continue-on-collection-errors')

checks = []
na = []
for pid in ALL:
    meta = props.PROPS.get(pid)
    if meta is None or meta.get('declined'):
        na.append(dict(
            property_id=pid,
            reason=(meta or {}).get('declined') or props.NOT_BUILT.get(
                pid, 'check not built yet (DESIGN.md section 10)')))
        continue
    checks.append(dict(
        property_id=pid,
        quick_cmd=f'./check {pid} --tier quick',
        thorough_cmd=f'./check {pid} --tier thorough',
        evidence_file=f'/verif/evidence/{pid}.json',
        replay_cmd_template=f'./check {pid} --replay {{path}}',
        engine='ddverif',
        level_claimed=dict(
            category='other',
            text=meta['explanation'],
            design_ref=f'DESIGN.md section 5 ({pid}), section 4 (rules)'),
        level_note=(
            'Static analysis only: necessary shape conditions of the '
            'property are decided on every site and path of the current '
            'source; the package is not executed (single functions are '
            'interpreted over small models where the text names a model). '
            'Not decided: '
            + (meta.get('not_decided') or 'see DESIGN.md') +
            ' Trusted base: Python ast / Cython 3.0.0 parser, the '
            'primitive-semantics tables and idiom tables listed in '
            'DESIGN.md section 4, the abort-exit convention for '
            'AssertionError.'),
        technique=meta.get('technique', 'static analysis')))

manifest = dict(
    version=1,
    setup_cmd='/venv/bin/python -c "import ast, Cython.Compiler.Parsing"',
    hooks=dict(
        guard='DD_VERIF',
        enable='none: the checks read source text only; nothing in /repo '
               'is instrumented, imported or executed (the model-based '
               'rules interpret the syntax tree of single functions in '
               'the checker\'s own evaluator)',
        baseline_off_cmd=BASELINE,
        source_commits=[],
        add_only=True),
    engines=[dict(
        name='ddverif',
        path='/verif/ddverif',
        serves_properties=[c['property_id'] for c in checks],
        kind_free_text=(
            'repository-specific static analysis over Python ast and the '
            'Cython parse tree lowered to ast: table interpretation, '
            'path-sensitive dataflow, typestate, call-graph reachability, '
            'writer/reader agreement, finite-model interpretation of the '
            'syntax tree of single functions (DESIGN section 13.2)'))],
    checks=checks,
    notes=(
        'Exit codes: 0 holds / only known findings; 1 VIOLATION; '
        '2 ANALYSIS-ERROR (vanished anchor, unparsable unit, self-test '
        'failure). Known findings: /verif/known_findings.json. The '
        'thorough tier adds the self-validation corpus '
        '(ddverif/variants.py, the seeded changes of /verif/seeded and '
        'the behaviour-preserving refactorings of /verif/benign) on '
        'scratch copies, and the differential self-test of the '
        'interpreter.'),
    not_applicable=na)
with open(os.path.join(HERE, 'MANIFEST.json'), 'w') as f:
    json.dump(manifest, f, indent=1)
print(f'{len(checks)} checks, {len(na)} not applicable')
