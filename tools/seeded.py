#!/venv/bin/python
"""Confirm and file a seeded change produced by an independent sub-agent.

usage: tools/seeded.py verify <PID> <N> [--note TEXT]
         takes /tmp/wt/<PID>/mut_<PID>_<N>.diff and demo_<PID>_<N>.py|.txt,
         re-confirms everything in a fresh scratch worktree of /repo (demo
         passes before, fails after; baseline tests unchanged), runs every
         check against the changed tree, and files the result under
         /verif/seeded/<PID>-<N>/.
       tools/seeded.py recheck
         re-runs the checks against every filed change (scratch copies).
"""
import glob
import json
import os
import shutil
import subprocess
import sys
import tempfile

HERE = os.path.dirname(os.path.dirname(os.path.abspath(__file__)))
sys.path.insert(0, HERE)
BASELINE = json.load(open('/root/.vp/BASELINE.json'))
PY = '/venv/bin/python'


def sh(cmd, cwd=None, env=None, timeout=900):
    e = dict(os.environ)
    if env:
        e.update(env)
    p = subprocess.run(cmd, shell=True, cwd=cwd, env=e, timeout=timeout,
                       stdout=subprocess.PIPE, stderr=subprocess.STDOUT,
                       text=True)
    return p.returncode, p.stdout


def run_tests(wt):
    xml = os.path.join(wt, '_junit.xml')
    sh(f'{PY} -m pytest -q -p no:cacheprovider --timeout=900 '
       f'--continue-on-collection-errors --junitxml={xml}', cwd=wt)
    import xml.etree.ElementTree as ET
    ok = set()
    for tc in ET.parse(xml).iter('testcase'):
        if not list(tc):
            ok.add(f"{tc.get('classname')}::{tc.get('name')}")
    os.remove(xml)
    missing = sorted(set(BASELINE['stable_pass']) - ok)
    return len(ok), missing


def run_checks(repo):
    """Run every check against `repo`; return {pid: [finding keys]}."""
    from ddverif import selftest, props, report
    known = report.load_known()
    out = dict()
    errors = dict()
    for pid in sorted(props.PROPS):
        kk = {k['key'] for k in known['known'] if k['property'] == pid}
        try:
            res = selftest.analyse(pid, repo)
            keys = [f.key for f in res.findings if f.key not in kk]
        except Exception as e:   # AnalysisError etc.
            errors[pid] = f'{type(e).__name__}: {e}'
            continue
        if keys:
            out[pid] = keys
    return out, errors


def verify(pid, n, note='', src_root='/tmp/wt', tag=''):
    src = f'{src_root}/{pid}'
    patch = f'{src}/mut_{pid}_{n}.diff'
    demos = glob.glob(f'{src}/demo_{pid}_{n}.*')
    if not os.path.exists(patch) or not demos:
        print('missing patch or demo', patch, demos)
        return 1
    demo = demos[0]
    wt = tempfile.mkdtemp(prefix=f'sv-{pid}-{n}-', dir='/tmp')
    os.rmdir(wt)
    rc, out = sh(f'git -C /repo worktree add -q --detach {wt} HEAD')
    meta = dict(property=pid, n=n, patch=os.path.basename(patch),
                demo=os.path.basename(demo))
    try:
        runnable = demo.endswith('.py')
        shutil.copy(demo, wt)
        dname = os.path.basename(demo)
        if runnable:
            rc0, o0 = sh(f'{PY} {dname}', cwd=wt, env={'PYTHONPATH': wt})
            meta['demo_before'] = rc0
        rc, out = sh(f'git apply {patch}', cwd=wt)
        if rc:
            print('patch does not apply:', out)
            return 1
        if runnable:
            rc1, o1 = sh(f'{PY} {dname}', cwd=wt, env={'PYTHONPATH': wt})
            meta['demo_after'] = rc1
            meta['demo_output_after'] = o1[-600:]
        npass, missing = run_tests(wt)
        meta['tests_passed'] = npass
        meta['baseline_tests_missing'] = missing
        found, errors = run_checks(wt)
        meta['detected_by'] = found
        meta['analysis_errors'] = errors
        ok = (not runnable or (meta['demo_before'] == 0
                               and meta['demo_after'] != 0)) \
            and not missing
        meta['confirmed'] = bool(ok)
        meta['what_i_ran'] = (
            'fresh scratch worktree of /repo HEAD; demo before the patch '
            '(expect exit 0); git apply patch; demo after (expect exit '
            '!= 0); baseline pytest command compared with the 105 '
            'stable tests of /root/.vp/BASELINE.json; every check of '
            'MANIFEST.json in-process against the patched worktree; '
            'worktree removed')
        if note:
            meta['needs'] = note
        print(json.dumps({k: meta[k] for k in (
            'property', 'n', 'confirmed', 'demo_before', 'demo_after',
            'tests_passed', 'baseline_tests_missing', 'detected_by',
            'analysis_errors') if k in meta}, indent=1))
        if ok:
            dst = os.path.join(HERE, 'seeded',
                               f'{pid}-{tag}{n}' if tag else f'{pid}-{n}')
            os.makedirs(dst, exist_ok=True)
            shutil.copy(patch, os.path.join(dst, 'patch.diff'))
            shutil.copy(demo, os.path.join(dst, dname))
            old = os.path.join(dst, 'meta.json')
            if os.path.exists(old) and not note:
                meta['needs'] = json.load(open(old)).get('needs', '')
            with open(old, 'w') as f:
                json.dump(meta, f, indent=1)
        return 0 if ok else 2
    finally:
        sh(f'git -C /repo worktree remove --force {wt}')


def _recheck_one(d):
    from ddverif import selftest
    mp = os.path.join(d, 'meta.json')
    meta = json.load(open(mp))
    patch = os.path.join(d, 'patch.diff')
    tmp = tempfile.mkdtemp(prefix='seeded-', dir='/tmp')
    try:
        os.makedirs(os.path.join(tmp, 'dd'))
        for rel in selftest.FILES:
            s = os.path.join('/repo', rel)
            if os.path.exists(s):
                shutil.copy(s, os.path.join(tmp, rel))
        rc, out = sh(f'patch -p1 -s < {patch}', cwd=tmp)
        if rc:
            return (os.path.basename(d), 'PATCH-FAILS', out[:80], {})
        found, errors = run_checks(tmp)
        meta['detected_by'] = found
        meta['analysis_errors'] = errors
        json.dump(meta, open(mp, 'w'), indent=1)
        own = meta['property'] in found
        return (os.path.basename(d),
                'caught' if own else (
                    'caught-by-other' if found else 'MISSED'),
                ', '.join(f'{p}:{len(k)}' for p, k in found.items()),
                errors)
    finally:
        shutil.rmtree(tmp, ignore_errors=True)


def _reconfirm_one(d):
    """Demo on the current /repo: must pass; with the patch: must fail."""
    mp = os.path.join(d, 'meta.json')
    meta = json.load(open(mp))
    demos = [f for f in os.listdir(d) if f.startswith('demo') and
             f.endswith('.py')]
    if not demos:
        return (os.path.basename(d), 'no-demo', '')
    out = []
    for patched in (False, True):
        tmp = tempfile.mkdtemp(prefix='reconf-', dir='/tmp')
        try:
            shutil.copytree('/repo/dd', os.path.join(tmp, 'dd'))
            shutil.copy('/repo/doc.md', os.path.join(tmp, 'doc.md'))
            if os.path.isdir('/repo/tests'):
                shutil.copytree('/repo/tests', os.path.join(tmp, 'tests'))
            if patched:
                rc, o = sh(f'patch -p1 -s < {d}/patch.diff', cwd=tmp)
                if rc:
                    return (os.path.basename(d), 'PATCH-FAILS', o[:80])
            shutil.copy(os.path.join(d, demos[0]),
                        os.path.join(tmp, 'demo.py'))
            rc, o = sh('/venv/bin/python demo.py', cwd=tmp,
                       env={'PYTHONPATH': tmp}, timeout=1800)
            out.append(rc)
        finally:
            shutil.rmtree(tmp, ignore_errors=True)
    status = 'ok' if out[0] == 0 and out[1] != 0 else (
        'NEUTRALISED' if out[0] == 0 and out[1] == 0 else 'DEMO-BROKEN')
    meta['reconfirmed'] = dict(demo_before=out[0], demo_after=out[1],
                               status=status)
    json.dump(meta, open(mp, 'w'), indent=1)
    return (os.path.basename(d), status, out)


def reconfirm(only=None):
    from concurrent.futures import ProcessPoolExecutor
    dirs = [d for d in sorted(glob.glob(os.path.join(HERE, 'seeded', '*')))
            if os.path.exists(os.path.join(d, 'meta.json'))
            and (only is None or only in os.path.basename(d))]
    with ProcessPoolExecutor(16) as ex:
        rows = list(ex.map(_reconfirm_one, dirs))
    for r in rows:
        if r[1] != 'ok':
            print(*r)
    print(len(rows), 'changes;', sum(1 for r in rows if r[1] == 'ok'),
          'still break the property on the current tree')


def recheck(only=None):
    from concurrent.futures import ProcessPoolExecutor
    dirs = [d for d in sorted(glob.glob(os.path.join(HERE, 'seeded', '*')))
            if os.path.exists(os.path.join(d, 'meta.json'))
            and (only is None or only in os.path.basename(d))
            and not json.load(open(os.path.join(d, 'meta.json'))).get(
                'obsolete')]
    with ProcessPoolExecutor(16) as ex:
        rows = list(ex.map(_recheck_one, dirs))
    for r in rows:
        print(*r)
    n = len(rows)
    c = sum(1 for r in rows if r[1] == 'caught')
    o = sum(1 for r in rows if r[1] == 'caught-by-other')
    print(f'{n} seeded changes: {c} caught by their own property check, '
          f'{o} only by another check, {n - c - o} missed')


if __name__ == '__main__':
    if sys.argv[1] == 'verify':
        note = ''
        if '--note' in sys.argv:
            note = sys.argv[sys.argv.index('--note') + 1]
        src_root = '/tmp/wt'
        tag = ''
        if '--src' in sys.argv:
            src_root = sys.argv[sys.argv.index('--src') + 1]
        if '--tag' in sys.argv:
            tag = sys.argv[sys.argv.index('--tag') + 1]
        sys.exit(verify(sys.argv[2], sys.argv[3], note, src_root, tag))
    elif sys.argv[1] == 'reconfirm':
        reconfirm(sys.argv[2] if len(sys.argv) > 2 else None)
    elif sys.argv[1] == 'recheck':
        recheck(sys.argv[2] if len(sys.argv) > 2 else None)
