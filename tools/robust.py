#!/venv/bin/python
"""Two transformed copies of /repo on which every check must stay silent:

  rt  every module parsed and written back with ast.unparse (positions,
      comments, parenthesisation and quoting change; behaviour does not)
  rn  as rt, and every local variable of every function renamed to an
      opaque name (l0, l1, ...); parameters, attributes, globals and
      keyword names keep theirs

usage: tools/robust.py [DIR]   (default /tmp/ddverif-robust; removed first)
Prints the VIOLATION / ANALYSIS-ERROR / UNDECIDED lines of `./check all`
on both copies and exits 1 if there is a violation or analysis error.
"""
import ast
import builtins
import os
import shutil
import subprocess
import sys

HERE = os.path.dirname(os.path.dirname(os.path.abspath(__file__)))


class Renamer(ast.NodeTransformer):
    def __init__(self):
        self.stack = []

    def locals_of(self, fn):
        a = fn.args
        params = {p.arg for p in a.posonlyargs + a.args + a.kwonlyargs}
        if a.vararg:
            params.add(a.vararg.arg)
        if a.kwarg:
            params.add(a.kwarg.arg)
        declared = set()
        stored = set()
        for n in ast.walk(fn):
            if isinstance(n, (ast.Global, ast.Nonlocal)):
                declared |= set(n.names)
            if isinstance(n, ast.Name) and isinstance(
                    n.ctx, (ast.Store, ast.Del)):
                stored.add(n.id)
            if isinstance(n, (ast.FunctionDef, ast.AsyncFunctionDef)) \
                    and n is not fn:
                pass
            if isinstance(n, ast.MatchAs) and n.name:
                stored.add(n.name)
        nested = {n.name for n in ast.walk(fn) if isinstance(
            n, (ast.FunctionDef, ast.ClassDef)) and n is not fn}
        # parameters of nested functions keep their names
        for n in ast.walk(fn):
            if isinstance(n, (ast.FunctionDef, ast.Lambda)) and n is not fn:
                b = n.args
                params |= {p.arg for p in b.posonlyargs + b.args
                           + b.kwonlyargs}
                if b.vararg:
                    params.add(b.vararg.arg)
                if b.kwarg:
                    params.add(b.kwarg.arg)
        return {x for x in stored - params - declared - nested
                if x != '_' and not hasattr(builtins, x)}

    def visit_FunctionDef(self, node):
        if self.stack:
            # nested: handled by the outermost function's map
            self.generic_visit(node)
            return node
        names = sorted(self.locals_of(node))
        mapping = {x: f'l{i}' for i, x in enumerate(names)}
        self.stack.append(mapping)
        self.generic_visit(node)
        self.stack.pop()
        return node

    visit_AsyncFunctionDef = visit_FunctionDef

    def visit_Name(self, node):
        if self.stack and node.id in self.stack[-1]:
            node.id = self.stack[-1][node.id]
        return node

    def visit_MatchAs(self, node):
        if self.stack and node.name in self.stack[-1]:
            node.name = self.stack[-1][node.name]
        self.generic_visit(node)
        return node


def build(dst, rename):
    os.makedirs(os.path.join(dst, 'dd'))
    for name in sorted(os.listdir('/repo/dd')):
        src = os.path.join('/repo/dd', name)
        if not os.path.isfile(src):
            continue
        if name.endswith('.py'):
            tree = ast.parse(open(src, encoding='utf8').read())
            if rename:
                tree = Renamer().visit(tree)
                ast.fix_missing_locations(tree)
            text = ast.unparse(tree) + '\n'
            compile(text, name, 'exec')
            open(os.path.join(dst, 'dd', name), 'w',
                 encoding='utf8').write(text)
        else:
            shutil.copy(src, os.path.join(dst, 'dd', name))
    shutil.copy('/repo/doc.md', os.path.join(dst, 'doc.md'))
    if os.path.isdir('/repo/tests'):
        shutil.copytree('/repo/tests', os.path.join(dst, 'tests'))


def main():
    root = sys.argv[1] if len(sys.argv) > 1 else '/tmp/ddverif-robust'
    shutil.rmtree(root, ignore_errors=True)
    bad = 0
    for tag, rename in (('rt', False), ('rn', True)):
        dst = os.path.join(root, tag)
        build(dst, rename)
        p = subprocess.run(
            [os.path.join(HERE, 'check'), 'all', '--repo', dst],
            stdout=subprocess.PIPE, stderr=subprocess.STDOUT, text=True)
        lines = [x for x in p.stdout.splitlines() if x.startswith(
            ('VIOLATION', 'ANALYSIS-ERROR', 'UNDECIDED'))]
        nv = sum(1 for x in lines if x.startswith('VIOLATION'))
        ne = sum(1 for x in lines if x.startswith('ANALYSIS-ERROR'))
        nu = sum(1 for x in lines if x.startswith('UNDECIDED'))
        print(f'{tag}: {nv} violation(s), {ne} analysis error(s), '
              f'{nu} undecided')
        for x in lines:
            if not x.startswith('UNDECIDED') or '-v' in sys.argv:
                print('  ', x[:300])
        if nv or ne:
            print(p.stdout[-3000:] if '-v' in sys.argv else '')
        bad += nv + ne
    if '--keep' not in sys.argv:
        shutil.rmtree(root, ignore_errors=True)
    return 1 if bad else 0


if __name__ == '__main__':
    sys.exit(main())
