#!/venv/bin/python
"""Behaviour-preserving refactorings written by independent sub-agents:
confirm them and run every check against them.  A VIOLATION on such a tree
is a false alarm of the machinery.

  tools/benign.py verify <PID> <N> [--src DIR]   (sub-agent's worktree root)
  tools/benign.py recheck [substring]

verify: fresh scratch worktree of /repo HEAD; the equivalence script before
the patch (exit 0); patch; script again (exit 0); baseline test suite (the
105 stable tests still pass); every check against the patched tree.  Filed
under /verif/benign/<PID>-<N>/ (patch.diff, the script, meta.json).
"""
import glob
import json
import os
import shutil
import sys
import tempfile

HERE = os.path.dirname(os.path.dirname(os.path.abspath(__file__)))
sys.path.insert(0, HERE)
sys.path.insert(0, os.path.join(HERE, 'tools'))
import seeded as S   # noqa: E402


def undecided_and_findings(repo):
    """{pid: [finding keys]}, {pid: error}, {pid: n_undecided}"""
    from ddverif import selftest, props, report
    known = report.load_known()
    found, errors, und = dict(), dict(), dict()
    base = dict()
    for pid in sorted(props.PROPS):
        kk = {k['key'] for k in known['known'] if k['property'] == pid}
        try:
            res = selftest.analyse(pid, repo)
        except Exception as e:
            errors[pid] = f'{type(e).__name__}: {e}'[:300]
            continue
        keys = [f.key for f in res.findings if f.key not in kk]
        if keys:
            found[pid] = keys
        n = sum(1 for i in res.instances if i['verdict'] == 'undecided')
        if n:
            und[pid] = n
    return found, errors, und


def verify(pid, n, src_root, tag=''):
    src = f'{src_root}/{pid}'
    patch = f'{src}/ref_{pid}_{n}.diff'
    scripts = glob.glob(f'{src}/equiv_{pid}_{n}.*')
    if not os.path.exists(patch) or not scripts:
        print('missing patch or script', patch, scripts)
        return 1
    script = scripts[0]
    wt = tempfile.mkdtemp(prefix=f'bv-{pid}-{n}-', dir='/tmp')
    os.rmdir(wt)
    S.sh(f'git -C /repo worktree add -q --detach {wt} HEAD')
    meta = dict(property=pid, n=n)
    try:
        runnable = script.endswith('.py')
        shutil.copy(script, wt)
        name = os.path.basename(script)
        if runnable:
            rc0, _ = S.sh(f'{S.PY} {name}', cwd=wt,
                          env={'PYTHONPATH': wt}, timeout=3600)
            meta['script_before'] = rc0
        rc, out = S.sh(f'git apply {patch}', cwd=wt)
        if rc:
            print('patch does not apply:', out)
            return 1
        if runnable:
            rc1, o1 = S.sh(f'{S.PY} {name}', cwd=wt,
                           env={'PYTHONPATH': wt}, timeout=3600)
            meta['script_after'] = rc1
        npass, missing = S.run_tests(wt)
        meta['tests_passed'] = npass
        meta['baseline_tests_missing'] = missing
        found, errors, und = undecided_and_findings(wt)
        meta['false_alarms'] = found
        meta['analysis_errors'] = errors
        meta['undecided'] = und
        ok = not missing and (not runnable or (
            meta['script_before'] == 0 and meta['script_after'] == 0))
        meta['confirmed'] = bool(ok)
        # what the checks said when the refactoring arrived (kept; the
        # fields above are rewritten by every recheck)
        meta['at_arrival'] = dict(false_alarms=found,
                                  analysis_errors=errors, undecided=und)
        print(json.dumps(meta, indent=1))
        if ok:
            dst = os.path.join(HERE, 'benign', f'{pid}-{tag}{n}')
            os.makedirs(dst, exist_ok=True)
            shutil.copy(patch, os.path.join(dst, 'patch.diff'))
            shutil.copy(script, os.path.join(dst, name))
            with open(os.path.join(dst, 'meta.json'), 'w') as f:
                json.dump(meta, f, indent=1)
        return 0 if ok else 2
    finally:
        S.sh(f'git -C /repo worktree remove --force {wt}')


def _recheck_one(d):
    from ddverif import selftest
    mp = os.path.join(d, 'meta.json')
    meta = json.load(open(mp))
    tmp = tempfile.mkdtemp(prefix='benign-', dir='/tmp')
    try:
        os.makedirs(os.path.join(tmp, 'dd'))
        for rel in selftest.FILES:
            s = os.path.join('/repo', rel)
            if os.path.exists(s):
                shutil.copy(s, os.path.join(tmp, rel))
        rc, out = S.sh(f'patch -p1 -s < {d}/patch.diff', cwd=tmp)
        if rc:
            return (os.path.basename(d), 'PATCH-FAILS', out[:80], {}, {})
        found, errors, und = undecided_and_findings(tmp)
        meta['false_alarms'] = found
        meta['analysis_errors'] = errors
        meta['undecided'] = und
        json.dump(meta, open(mp, 'w'), indent=1)
        return (os.path.basename(d),
                'FALSE-ALARM' if found else (
                    'ANALYSIS-ERROR' if errors else 'silent'),
                found, errors, und)
    finally:
        shutil.rmtree(tmp, ignore_errors=True)


def recheck(only=None):
    from concurrent.futures import ProcessPoolExecutor
    dirs = [d for d in sorted(glob.glob(os.path.join(HERE, 'benign', '*')))
            if os.path.exists(os.path.join(d, 'meta.json'))
            and (only is None or only in os.path.basename(d))]
    with ProcessPoolExecutor(16) as ex:
        rows = list(ex.map(_recheck_one, dirs))
    for r in rows:
        print(r[0], r[1], r[2] or '', r[3] or '', r[4] or '')
    n = len(rows)
    print(f'{n} refactorings: '
          f'{sum(1 for r in rows if r[1] == "silent")} silent, '
          f'{sum(1 for r in rows if r[1] == "FALSE-ALARM")} false alarm, '
          f'{sum(1 for r in rows if r[1] == "ANALYSIS-ERROR")} analysis '
          f'error, {sum(1 for r in rows if r[1] == "PATCH-FAILS")} stale')


if __name__ == '__main__':
    if sys.argv[1] == 'verify':
        src = '/tmp/wt5'
        if '--src' in sys.argv:
            src = sys.argv[sys.argv.index('--src') + 1]
        tag = ''
        if '--tag' in sys.argv:
            tag = sys.argv[sys.argv.index('--tag') + 1]
        sys.exit(verify(sys.argv[2], sys.argv[3], src, tag))
    elif sys.argv[1] == 'recheck':
        recheck(sys.argv[2] if len(sys.argv) > 2 else None)
