#!/bin/sh
# usage: tools/vs.sh PID [SRC_ROOT] [TAG]  -> verify all mutations of PID
pid=$1; src=${2:-/tmp/wt}; tag=${3:-}
for n in 1 2 3 4; do
  [ -f $src/$pid/mut_${pid}_$n.diff ] || continue
  /venv/bin/python /verif/tools/seeded.py verify $pid $n --src $src ${tag:+--tag $tag} 2>&1 | /venv/bin/python -c "
import sys,json
t=sys.stdin.read()
i=t.find('{')
try:
    d=json.loads(t[i:]); print(d['property'],d['n'],'confirmed',d['confirmed'],'demo',d.get('demo_before'),d.get('demo_after'),'tests',d['tests_passed'],d['baseline_tests_missing'],'DETECTED',d['detected_by'], d['analysis_errors'])
except Exception as e: print('??', t[-600:])
"
done
