#!/bin/sh
# usage: tools/bs.sh PID [SRC_ROOT] [TAG]  -> verify all refactorings of PID
pid=$1; src=${2:-/tmp/wt6}; tag=${3:-}
for n in 1 2 3; do
  [ -f $src/$pid/ref_${pid}_$n.diff ] || continue
  /venv/bin/python /verif/tools/benign.py verify $pid $n --src $src ${tag:+--tag $tag} 2>&1 | /venv/bin/python -c "
import sys,json
t=sys.stdin.read()
i=t.find('{')
try:
    d=json.loads(t[i:]); print(d['property'],d['n'],'confirmed',d['confirmed'],'script',d.get('script_before'),d.get('script_after'),'tests',d['tests_passed'],d['baseline_tests_missing'],'FALSE-ALARMS',d['false_alarms'],'ERRORS',{k:v[:120] for k,v in d['analysis_errors'].items()},'UNDECIDED',d['undecided'])
except Exception as e: print('??', t[-600:])
"
done
